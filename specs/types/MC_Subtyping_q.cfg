SPECIFICATION Spec
CONSTANTS
  Level = 1
INVARIANT Report
