SPECIFICATION Spec
CONSTANTS
  Consts <- C3
  Depth = 1
INVARIANT WindowExact
INVARIANT Laws
INVARIANT Emit
