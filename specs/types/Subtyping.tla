------------------------------- MODULE Subtyping -------------------------------
(***************************************************************************)
(* C06: the subtype relation as an artefact.                               *)
(*                                                                         *)
(* Univ is the universe of types up to nesting depth 2 over built-in       *)
(* classes and traits, literal enum and interval refinement types, unions, *)
(* intersections and immutable containers.  It is closed under subterms.   *)
(* In the first run (MODE = "universe") TLC enumerates it and prints it;   *)
(* the harness asks the real Context::subtype_of for every ordered pair    *)
(* and writes the relation as a 0/1 matrix.  In the second run             *)
(* (MODE = "laws") the matrix is read back (IOEnv.C06_REL) and TLC checks  *)
(* the documented laws on it, one row per step of a scan so that every     *)
(* failing instance is reported:                                           *)
(*   Reflexive, Transitive, Never below / Obj above everything, the        *)
(*   numeric tower, T <: T or U, T and U <: T, enum/interval below the     *)
(*   class of its values.                                                  *)
(***************************************************************************)
EXTENDS Integers, Sequences, FiniteSets, TLC, Json, IOUtils, SequencesExt

CONSTANTS Level      \* 1: quick universe, 2: thorough universe

C(n) == [k |-> "c", n |-> n]
En(vs) == [k |-> "enum", vs |-> vs]
Iv(lo, hi) == [k |-> "iv", lo |-> lo, hi |-> hi]
Or(a, b) == [k |-> "or", a |-> a, b |-> b]
And(a, b) == [k |-> "and", a |-> a, b |-> b]
Li(a, n) == [k |-> "list", a |-> a, len |-> n]
Tu(a, b) == [k |-> "tuple", a |-> a, b |-> b]

Tower == <<C("Bool"), C("Nat"), C("Int"), C("Ratio"), C("Float"), C("Complex")>>
Classes == {C("Never"), C("Obj"), C("Str"), C("NoneType")} \cup {Tower[i] : i \in 1..6}
Traits == {C("Eq"), C("Ord"), C("Num"), C("Show")}
Enums == {En(<<"1">>), En(<<"1", "2">>), En(<<"-1", "2">>), En(<<"\"a\"">>), En(<<"\"a\"", "\"b\"">>), En(<<"True">>), En(<<"1.5">>)}
Ivs == {Iv(1, 3), Iv(0, 5), Iv(-2, 2)}
Atoms == Classes \cup Traits \cup Enums \cup Ivs
\* the class of the values of an enum / interval
ValClass(t) == IF t.k = "iv" THEN (IF t.lo >= 0 THEN C("Nat") ELSE C("Int"))
               ELSE LET v == t.vs[1] IN
                    IF v \in {"True", "False"} THEN C("Bool")
                    ELSE IF v = "1.5" THEN C("Float")
                    ELSE IF v \in {"\"a\"", "\"b\""} THEN C("Str")
                    ELSE IF \E i \in 1..Len(t.vs) : t.vs[i] = "-1" THEN C("Int") ELSE C("Nat")

\* operands of depth-1 constructors
A1 == IF Level = 1 THEN {C("Nat"), C("Int"), C("Float"), C("Str"), C("Bool"), C("NoneType"), En(<<"1", "2">>), En(<<"\"a\"">>), Iv(1, 3), C("Eq")}
      ELSE {C("Nat"), C("Int"), C("Float"), C("Str"), C("Bool"), C("NoneType"), C("Never"), C("Obj"), En(<<"1", "2">>), En(<<"-1", "2">>),
            En(<<"\"a\"">>), Iv(1, 3), Iv(-2, 2), C("Eq"), C("Ord")}
A2 == IF Level = 1 THEN {C("Nat"), C("Int"), C("Str"), En(<<"1", "2">>)} ELSE {C("Nat"), C("Int"), C("Float"), C("Str"), En(<<"1", "2">>), Iv(1, 3), C("Obj"), C("Never")}
D1 == {Or(a, b) : a, b \in A1} \cup {And(a, b) : a, b \in A1}
      \cup {Li(a, n) : a \in A2, n \in {-1, 2}} \cup {Tu(a, b) : a, b \in A2}
\* operands of depth-2 constructors
B1 == IF Level = 1 THEN {Or(C("Int"), C("Str")), And(C("Int"), C("Str")), Or(C("Nat"), C("NoneType")), Li(C("Int"), 2), Or(En(<<"1", "2">>), C("Str"))}
      ELSE {Or(C("Int"), C("Str")), And(C("Int"), C("Str")), Or(C("Nat"), C("NoneType")), Li(C("Int"), 2), Li(C("Nat"), -1),
            Or(En(<<"1", "2">>), C("Str")), And(C("Eq"), C("Ord")), Or(C("Bool"), C("Str")), Tu(C("Int"), C("Str"))}
B2 == IF Level = 1 THEN {C("Int"), C("Str"), C("NoneType")} ELSE {C("Int"), C("Nat"), C("Str"), C("NoneType"), C("Float"), En(<<"1", "2">>)}
D2 == {Or(x, c) : x \in B1, c \in B2} \cup {Or(c, x) : x \in B1, c \in B2} \cup {And(x, c) : x \in B1, c \in B2}
      \cup {Li(x, n) : x \in B1, n \in {-1, 2}} \cup {Tu(x, c) : x \in B1, c \in B2}
UnivSet == Atoms \cup D1 \cup D2
Univ == SetToSeq(UnivSet)
N == Len(Univ)

\* ---- run 1: print the universe
PrintUniverse == PrintT(<<"U", ToJson(Univ)>>)

\* ---- run 2: the laws on the recorded relation
Mode == IF "C06_MODE" \in DOMAIN IOEnv THEN IOEnv.C06_MODE ELSE "universe"
Doc == IF Mode = "laws" THEN JsonDeserialize(IOEnv.C06_REL) ELSE [types |-> <<>>, rel |-> <<>>]
T == Doc.types              \* the universe as the harness received it (same order)
R(i, j) == Doc.rel[i][j] = 1
M == Len(T)
Idx(t) == CHOOSE i \in 1..M : T[i] = t
Has(t) == \E i \in 1..M : T[i] = t

VARIABLES row, bad
vars == <<row, bad>>
Init == row = 0 /\ bad = {}
Next == /\ row < M
        /\ row' = row + 1
        /\ LET i == row + 1
               refl == IF R(i, i) THEN {} ELSE {[law |-> "reflexive", a |-> i, b |-> i, c |-> 0]}
               \* i <: j and j <: k but not i <: k
               transBad == UNION {{[law |-> "transitive", a |-> i, b |-> j, c |-> k] : k \in {kk \in 1..M : R(j, kk) /\ ~R(i, kk)}} :
                                     j \in {jj \in 1..M : R(i, jj)}}
               bottom == IF Has(C("Never")) /\ ~R(Idx(C("Never")), i) THEN {[law |-> "never-below", a |-> Idx(C("Never")), b |-> i, c |-> 0]} ELSE {}
               top == IF Has(C("Obj")) /\ ~R(i, Idx(C("Obj"))) THEN {[law |-> "obj-above", a |-> i, b |-> Idx(C("Obj")), c |-> 0]} ELSE {}
               t == T[i]
               union == IF t.k = "or" THEN {[law |-> "union-upper", a |-> Idx(x), b |-> i, c |-> 0] : x \in {y \in {t.a, t.b} : Has(y) /\ ~R(Idx(y), i)}} ELSE {}
               inter == IF t.k = "and" THEN {[law |-> "intersection-lower", a |-> i, b |-> Idx(x), c |-> 0] : x \in {y \in {t.a, t.b} : Has(y) /\ ~R(i, Idx(y))}} ELSE {}
               enum == IF t.k \in {"enum", "iv"} /\ Has(ValClass(t)) /\ ~R(i, Idx(ValClass(t)))
                       THEN {[law |-> "enum-below-class", a |-> i, b |-> Idx(ValClass(t)), c |-> 0]} ELSE {}
               tower == {[law |-> "tower", a |-> i, b |-> Idx(Tower[q]), c |-> 0] :
                            q \in {qq \in 1..6 : \E p \in 1..(qq - 1) : Tower[p] = t /\ Has(Tower[qq]) /\ ~R(i, Idx(Tower[qq]))}}
           IN bad' = refl \cup transBad \cup bottom \cup top \cup union \cup inter \cup enum \cup tower
Spec == Init /\ [][Next]_vars

Report == bad # {} => PrintT(<<"L", ToJson(bad)>>)
Laws == bad = {}
=============================================================================
