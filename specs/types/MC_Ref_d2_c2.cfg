SPECIFICATION Spec
CONSTANTS
  Consts <- C02
  Depth = 2
INVARIANT WindowExact
INVARIANT Laws
INVARIANT Emit
