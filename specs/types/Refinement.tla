----------------------------- MODULE Refinement -----------------------------
(***************************************************************************)
(* C32 / C03: integer refinement predicates {I: Int | P}.                  *)
(*                                                                         *)
(* A predicate is a tree in prefix (Polish) form: a sequence of tokens     *)
(* <<op, c>>, op \in {eq, ne, lt, le, gt, ge} (atoms, c the constant) or   *)
(* {not, and, or} (c unused).  Den(t) is the set of integers of the window *)
(* W satisfying t.  Every atom is constant on x < min(Consts) and on       *)
(* x > max(Consts), hence so is every Boolean combination; a window that   *)
(* extends at least one point beyond the constants on both sides therefore *)
(* decides implication between predicates over all of Z (WindowExact       *)
(* checks the tail behaviour on a wider window).                           *)
(*                                                                         *)
(* C32:  Den(and(p,q)) = Den(p) \cap Den(q), Den(or(p,q)) = \cup,          *)
(*       Den(not p) = W \ Den(p)   -- by construction of Holds.            *)
(* C03:  the checker may accept {I|P} <: {I|Q} only if Den(P) \subseteq    *)
(*       Den(Q).                                                           *)
(***************************************************************************)
EXTENDS Integers, Sequences, FiniteSets, TLC, Json

CONSTANTS Consts,     \* constants that may occur in atoms
          Depth       \* maximal tree depth (atoms have depth 0)

AtomOps == {"eq", "ne", "lt", "le", "gt", "ge"}
Lo == (CHOOSE m \in Consts : \A c \in Consts : m <= c) - 2     \* window: two points beyond
Hi == (CHOOSE m \in Consts : \A c \in Consts : m >= c) + 2     \* the constants on each side
W == Lo..Hi

\* Ev(t, pos, x) = <<truth value of the sub-tree starting at pos, position after it>>
RECURSIVE Ev(_, _, _)
Ev(t, pos, x) ==
  LET op == t[pos][1] c == t[pos][2] IN
  CASE op = "eq" -> <<x = c, pos + 1>>
    [] op = "ne" -> <<x # c, pos + 1>>
    [] op = "lt" -> <<x < c, pos + 1>>
    [] op = "le" -> <<x <= c, pos + 1>>
    [] op = "gt" -> <<x > c, pos + 1>>
    [] op = "ge" -> <<x >= c, pos + 1>>
    [] op = "not" -> LET a == Ev(t, pos + 1, x) IN <<~a[1], a[2]>>
    [] op = "and" -> LET a == Ev(t, pos + 1, x) b == Ev(t, a[2], x) IN <<a[1] /\ b[1], b[2]>>
    [] op = "or"  -> LET a == Ev(t, pos + 1, x) b == Ev(t, a[2], x) IN <<a[1] \/ b[1], b[2]>>
Holds(t, x) == Ev(t, 1, x)[1]
Den(t) == {x \in W : Holds(t, x)}
Implies(p, q) == Den(p) \subseteq Den(q)

(***************************************************************************)
(* Derivation machine: `t` is the prefix emitted so far, `todo` the stack   *)
(* of open holes, each with the depth still allowed below it.  One action   *)
(* per grammar production; a tree is complete when no hole is left.  TLC    *)
(* enumerates every derivation breadth-first (all trees of depth <= Depth)  *)
(* or samples deep ones with -simulate.                                     *)
(***************************************************************************)
VARIABLES t, todo
vars == <<t, todo>>
Init == t = <<>> /\ todo = <<Depth>>
\* an atom is first derived as a placeholder and filled in once the shape is complete, so that
\* random simulation chooses among {atom, not, and, or} with equal weight and reaches deep trees
Leaf == /\ todo # <<>>
        /\ t' = Append(t, <<"atom", 0>>) /\ todo' = Tail(todo)
FirstHole == CHOOSE i \in 1..Len(t) : t[i][1] = "atom" /\ \A j \in 1..(i - 1) : t[j][1] # "atom"
Fill(o, c) == /\ todo = <<>> /\ \E i \in 1..Len(t) : t[i][1] = "atom"
              /\ t' = [t EXCEPT ![FirstHole] = <<o, c>>] /\ UNCHANGED todo
Neg == /\ todo # <<>> /\ Head(todo) > 0
       /\ t' = Append(t, <<"not", 0>>) /\ todo' = <<Head(todo) - 1>> \o Tail(todo)
Bin(o) == /\ todo # <<>> /\ Head(todo) > 0
          /\ t' = Append(t, <<o, 0>>) /\ todo' = <<Head(todo) - 1, Head(todo) - 1>> \o Tail(todo)
Next == \/ Leaf \/ \E o \in AtomOps, c \in Consts : Fill(o, c)
        \/ Neg \/ Bin("and") \/ Bin("or")
Spec == Init /\ [][Next]_vars
Complete == todo = <<>> /\ \A i \in 1..Len(t) : t[i][1] # "atom"

\* the tails are constant: membership left of Lo+? and right of Hi-? never changes any more
WindowExact == Complete =>
  /\ \A x \in (Lo - 4)..Lo : Holds(t, x) = Holds(t, Lo)
  /\ \A x \in Hi..(Hi + 4) : Holds(t, x) = Holds(t, Hi)

\* set-operation laws (C32) hold for the reference denotation itself
Laws == (Complete /\ t[1][1] = "not") => Den(t) = W \ Den(Tail(t))

Emit == Complete => PrintT(<<"R", ToJson([t |-> t, den |-> Den(t)])>>)
=============================================================================
