SPECIFICATION Spec
CONSTANTS
  Consts <- C3
  Depth = 4
INVARIANT WindowExact
INVARIANT Laws
INVARIANT Emit
