SPECIFICATION Spec
CONSTANTS
  Level = 2
INVARIANT Report
