SPECIFICATION Spec
CONSTANTS
  Consts <- C02
  Depth = 1
INVARIANT WindowExact
INVARIANT Laws
INVARIANT Emit
