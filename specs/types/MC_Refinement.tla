---- MODULE MC_Refinement ----
EXTENDS Refinement
C02 == {0, 2}
C3 == {-1, 0, 2}
C5 == {-2, -1, 0, 1, 3}
====
