---- MODULE MC_Subtyping ----
EXTENDS Subtyping
ASSUME Mode = "universe" => PrintUniverse
====
