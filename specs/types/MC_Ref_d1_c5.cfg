SPECIFICATION Spec
CONSTANTS
  Consts <- C5
  Depth = 1
INVARIANT WindowExact
INVARIANT Laws
INVARIANT Emit
