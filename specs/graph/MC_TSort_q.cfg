SPECIFICATION Spec
CONSTANTS
  Names <- N3
  Extra <- X1
INVARIANT ImplMatchesRef
INVARIANT Emit
