SPECIFICATION Spec
CONSTANTS
  N = 7
  MaxImports = 3
  Shapes = "sim"
INVARIANT Once
INVARIANT StackOK
INVARIANT AllReached
INVARIANT Emit
