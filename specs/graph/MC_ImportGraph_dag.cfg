SPECIFICATION Spec
CONSTANTS
  N = 7
  MaxImports = 3
  Shapes = "dag"
INVARIANT Once
INVARIANT StackOK
INVARIANT AllReached
INVARIANT Emit
