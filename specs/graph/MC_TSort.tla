---- MODULE MC_TSort ----
EXTENDS TSort
N3 == {"a", "b", "c"}
N4 == {"a", "b", "c", "d"}
X1 == {"x"}
X0 == {}
====
