---- MODULE MC_ImportGraph ----
EXTENDS ImportGraph
====
