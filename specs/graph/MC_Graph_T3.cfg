SPECIFICATION Spec
CONSTANTS
  Paths <- MCPaths3
  MaxOps = 6
  DeepLog = FALSE
VIEW view
INVARIANT TypeOK
INVARIANT Acyclic
PROPERTY RefusalKeepsEdges
PROPERTY IncRefAddsOnlyRequested
ACTION_CONSTRAINT EmitTransition
