---------------------------- MODULE ModuleGraphImpl ----------------------------
(***************************************************************************)
(* Layer B for C21: erg_compiler/module/graph.rs as it is written -- a     *)
(* vector of nodes `graph` plus a dictionary `index` from path to vector   *)
(* position -- run in lock step with the reference graph of                *)
(* ModuleGraphRef.  Every query is computed the way the code computes it   *)
(* (through `index`); the refinement obligation is that these answers      *)
(* equal the reference answers in every reachable state.                   *)
(*                                                                         *)
(* RenameUpdatesIndex = FALSE is the code before the `fix:` commit         *)
(* (rename_path rewrote ids and edges but not `index`): TLC refutes        *)
(* IndexConsistent in two operations, AddNode(a); Rename(a, b).            *)
(***************************************************************************)
EXTENDS ModuleGraphRef

CONSTANT RenameUpdatesIndex

VARIABLES graph,    \* Seq of [id, deps]
          index,    \* function from a subset of Paths to positions
          bres      \* outcome of the last operation as the code computes it
bvars == <<nodes, deps, hist, order, graph, index, bres>>

HasIdx(p) == p \in DOMAIN index
Node(p)   == graph[index[p]]

\* deep_depends_on_ : follows get_node (the index), visited set
RECURSIVE BReach(_, _, _)
BReach(p, target, visited) ==
  IF p \in visited \/ ~HasIdx(p) \/ index[p] \notin 1..Len(graph) THEN FALSE
  ELSE LET n == Node(p) IN
       target \in n.deps \/ \E q \in n.deps : BReach(q, target, visited \cup {p})

RECURSIVE BAnc(_, _)
BAnc(front, acc) ==
  LET new == UNION {IF HasIdx(p) /\ index[p] \in 1..Len(graph) THEN Node(p).deps ELSE {} : p \in front} \ acc
  IN IF new = {} THEN acc ELSE BAnc(new, acc \cup new)

BObs ==
  [nodes    |-> {graph[i].id : i \in 1..Len(graph)},
   parents  |-> [p \in Paths |-> IF HasIdx(p) /\ index[p] \in 1..Len(graph) THEN Node(p).deps ELSE {}],
   anc      |-> [p \in Paths |-> BAnc({p}, {})],
   children |-> [p \in Paths |-> {graph[i].id : i \in {j \in 1..Len(graph) : p \in graph[j].deps}}],
   getnode  |-> {p \in Paths : HasIdx(p) /\ index[p] \in 1..Len(graph) /\ Node(p).id = p}]

BInit == Init /\ graph = <<>> /\ index = <<>> /\ bres = "ok"

Pushed(g, i, p) ==   \* add_node_if_none
  IF p \in DOMAIN i THEN <<g, i>>
  ELSE <<Append(g, [id |-> p, deps |-> {}]),
         [q \in DOMAIN i \cup {p} |-> IF q = p THEN Len(g) + 1 ELSE i[q]]>>

BAddNode(p) ==
  /\ AddNode(p)
  /\ graph' = Pushed(graph, index, p)[1] /\ index' = Pushed(graph, index, p)[2]
  /\ bres' = "ok"

BIncRef(a, b) ==
  /\ IncRef(a, b)
  /\ LET pg == Pushed(graph, index, a) IN
     /\ index' = pg[2]
     /\ IF a = b THEN graph' = pg[1] /\ bres' = "ok"
        ELSE \* deep_depends_on(b, a) evaluated on the graph *after* registering the referrer
             LET reach == LET g0 == pg[1] i0 == pg[2]
                              RECURSIVE R(_, _)
                              R(p, vis) == IF p \in vis \/ p \notin DOMAIN i0 \/ i0[p] \notin 1..Len(g0) THEN FALSE
                                           ELSE a \in g0[i0[p]].deps \/ \E q \in g0[i0[p]].deps : R(q, vis \cup {p})
                          IN R(b, {})
             IN IF reach THEN graph' = pg[1] /\ bres' = "cycle"
                ELSE /\ graph' = [pg[1] EXCEPT ![pg[2][a]].deps = @ \cup {b}]
                     /\ bres' = "ok"

BRemove(p) ==
  /\ Remove(p)
  /\ bres' = "ok"
  /\ IF HasIdx(p) /\ index[p] \in 1..Len(graph)
     THEN LET i == index[p]
              g2 == [k \in 1..(Len(graph) - 1) |-> IF k < i THEN graph[k] ELSE graph[k + 1]]
          IN /\ graph' = [k \in 1..Len(g2) |-> [g2[k] EXCEPT !.deps = @ \ {p}]]
             /\ index' = [q \in DOMAIN index \ {p} |-> IF index[q] > i THEN index[q] - 1 ELSE index[q]]
     ELSE /\ graph' = [k \in 1..Len(graph) |-> [graph[k] EXCEPT !.deps = @ \ {p}]]
          /\ UNCHANGED index

BRename(old, new) ==
  /\ Rename(old, new)
  /\ bres' = "ok"
  /\ graph' = [k \in 1..Len(graph) |->
        [id   |-> IF graph[k].id = old THEN new ELSE graph[k].id,
         deps |-> IF old \in graph[k].deps THEN (graph[k].deps \cup {new}) \ {old} ELSE graph[k].deps]]
  /\ IF RenameUpdatesIndex /\ HasIdx(old)
     THEN index' = [q \in (DOMAIN index \ {old}) \cup {new} |-> IF q = new THEN index[old] ELSE index[q]]
     ELSE UNCHANGED index

\* sorted(): tsort of the vector (any topological order of a sortable graph), index rebuilt
BSort ==
  /\ Sort
  /\ LET ids == {graph[i].id : i \in 1..Len(graph)}
         cyc == \E i \in 1..Len(graph) : graph[i].id \in BAnc({graph[i].id}, {})
         dang == \E i \in 1..Len(graph) : graph[i].deps \ ids # {}
     IN IF cyc \/ dang
        THEN /\ bres' = (IF cyc THEN "cycle" ELSE "dangling") /\ UNCHANGED <<graph, index>>
        ELSE /\ bres' = "ok"
             /\ \E perm \in {s \in [1..Len(graph) -> 1..Len(graph)] :
                               /\ \A i, j \in 1..Len(graph) : i # j => s[i] # s[j]
                               /\ \A i, j \in 1..Len(graph) : graph[s[j]].id \in graph[s[i]].deps => j < i} :
                  /\ graph' = [k \in 1..Len(graph) |-> graph[perm[k]]]
                  /\ index' = [q \in ids |-> CHOOSE k \in 1..Len(graph) : graph[perm[k]].id = q]

BNext == /\ Len(hist) < MaxOps
         /\ \/ \E p \in Paths : BAddNode(p)
            \/ \E a, b \in Paths : BIncRef(a, b)
            \/ \E p \in Paths : BRemove(p)
            \/ \E a, b \in Paths : BRename(a, b)
            \/ BSort
BSpec == BInit /\ [][BNext]_bvars
bview == <<nodes, deps, graph, index, bres>>

-----------------------------------------------------------------------------
IndexConsistent == /\ \A i \in 1..Len(graph) : HasIdx(graph[i].id) /\ index[graph[i].id] = i
                   /\ \A p \in DOMAIN index : index[p] \in 1..Len(graph) /\ graph[index[p]].id = p

\* refinement: every answer computed through the code's data structures is the reference answer
Refines ==
  LET a == Obs(nodes, deps) b == BObs IN
  /\ b.nodes = a.nodes /\ b.getnode = a.nodes
  /\ b.parents = a.parents /\ b.anc = a.anc /\ b.children = a.children
  /\ (hist # <<>> => bres = hist[Len(hist)].res)
=============================================================================
