SPECIFICATION Spec
CONSTANTS
  N = 3
  MaxImports = 2
  Shapes = "all"
INVARIANT Once
INVARIANT StackOK
INVARIANT AllReached
INVARIANT Emit
PROPERTY Terminates
