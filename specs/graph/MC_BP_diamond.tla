---- MODULE MC_BP_diamond ----
EXTENDS BuildPackage
MCMods == {"r","a","b","c"}
MCImp == [r |-> <<"a","b">>, a |-> <<"c">>, b |-> <<"c">>, c |-> <<>>]
====
