SPECIFICATION Spec
CONSTANTS
  N = 4
  MaxImports = 2
  Shapes = "all"
INVARIANT Once
INVARIANT StackOK
INVARIANT AllReached
INVARIANT Emit
PROPERTY Terminates
