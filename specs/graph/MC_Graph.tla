---- MODULE MC_Graph ----
EXTENDS ModuleGraphRef
MCPaths3 == {"p1", "p2", "p3"}
MCPaths4 == {"p1", "p2", "p3", "p4"}
MCPaths6 == {"p1", "p2", "p3", "p4", "p5", "p6"}
====
