---- MODULE MC_BP_chain ----
EXTENDS BuildPackage
MCMods == {"r","a","b"}
MCImp == [r |-> <<"a">>, a |-> <<"b">>, b |-> <<>>]
====
