---- MODULE MC_BP_self ----
EXTENDS BuildPackage
MCMods == {"r","a"}
MCImp == [r |-> <<"a">>, a |-> <<"a">>]
====
