---------------------------- MODULE ModuleGraphRef ----------------------------
(***************************************************************************)
(* Layer A for property C21: the module dependency graph as a plain        *)
(* reference graph.  `nodes` is the set of registered modules, `deps[p]`   *)
(* the set of paths p depends on (an edge may dangle: inc_ref registers    *)
(* only the referrer).  Every public operation of                          *)
(* erg_compiler::module::ModuleGraph is one action; every public query is  *)
(* an operator over (nodes, deps).                                         *)
(*                                                                         *)
(* `hist` is a history variable: the operations applied so far, each with  *)
(* the outcome the reference graph gives.  It is hidden by the VIEW in the *)
(* exhaustive configuration so that TLC explores the abstract state graph  *)
(* and keeps one (shortest) history per abstract state.                    *)
(***************************************************************************)
EXTENDS Integers, Sequences, FiniteSets, TLC, Json

CONSTANTS Paths,      \* universe of module paths (strings)
          MaxOps,     \* bound on history length
          DeepLog     \* TRUE: every history entry also carries the observation after it

VARIABLES nodes, deps, hist,
          order     \* registration order of the nodes (a sequence without duplicates); not part
                    \* of the reference graph's meaning -- it only makes TLC visit each abstract
                    \* graph once per insertion order, because the implementation keeps a vector
vars == <<nodes, deps, hist, order>>
view == <<nodes, deps, order>>

-----------------------------------------------------------------------------
(* Queries of the reference graph                                           *)

\* q is reachable from p through one or more edges; only registered nodes have out-edges
RECURSIVE ReachSet(_, _, _)
ReachSet(n, d, frontier) ==
  LET next == frontier \cup UNION {d[x] : x \in frontier \cap n}
  IN IF next = frontier THEN frontier ELSE ReachSet(n, d, next)
AncOf(n, d, p) == IF p \in n THEN ReachSet(n, d, d[p]) ELSE {}

DependsOn(p, q)     == p \in nodes /\ q \in deps[p]
Ancestors(p)        == AncOf(nodes, deps, p)
DeepDependsOn(p, q) == q \in Ancestors(p)
Children(p)         == {x \in nodes : p \in deps[x]}
Mentioned           == nodes \cup UNION {deps[x] : x \in nodes}

\* a cycle through registered nodes, or an edge to an unregistered path
HasCycle   == \E p \in nodes : p \in Ancestors(p)
HasDangling == \E p \in nodes : deps[p] \ nodes # {}

\* everything a client can ask, as one JSON-able record
Obs(n, d) ==
  [nodes    |-> n,
   parents  |-> [p \in Paths |-> IF p \in n THEN d[p] ELSE {}],
   anc      |-> [p \in Paths |-> AncOf(n, d, p)],
   children |-> [p \in Paths |-> {x \in n : p \in d[x]}],
   sortable |-> IF \E p \in n : p \in AncOf(n, d, p) THEN "cycle"
                ELSE IF \E p \in n : d[p] \ n # {} THEN "dangling" ELSE "ok"]

-----------------------------------------------------------------------------
TypeOK == /\ nodes \subseteq Paths
          /\ {order[i] : i \in 1..Len(order)} = nodes /\ Len(order) = Cardinality(nodes)
          /\ deps \in [Paths -> SUBSET Paths]
          /\ \A p \in Paths \ nodes : deps[p] = {}

Init == nodes = {} /\ deps = [p \in Paths |-> {}] /\ hist = <<>> /\ order = <<>>

AppendIfNew(s, p) == IF \E i \in 1..Len(s) : s[i] = p THEN s ELSE Append(s, p)
Without(s, p) == SelectSeq(s, LAMBDA x : x # p)

Log(op) == hist' = Append(hist, IF DeepLog THEN op @@ [obs |-> Obs(nodes', deps')] ELSE op)

AddNode(p) ==
  /\ nodes' = nodes \cup {p}
  /\ UNCHANGED deps
  /\ order' = AppendIfNew(order, p)
  /\ Log([op |-> "add", a |-> p, b |-> p, res |-> "ok"])

\* inc_ref(a, b): the referrer is registered first (named deviation: also when the edge is
\* then refused); a self-edge is ignored; an edge closing a cycle is refused and changes no edge.
IncRef(a, b) ==
  LET n1 == nodes \cup {a} IN
  /\ nodes' = n1
  /\ order' = AppendIfNew(order, a)
  /\ IF a = b THEN /\ UNCHANGED deps
                   /\ Log([op |-> "incref", a |-> a, b |-> b, res |-> "ok"])
     ELSE IF a \in AncOf(n1, deps, b)
          THEN /\ UNCHANGED deps
               /\ Log([op |-> "incref", a |-> a, b |-> b, res |-> "cycle"])
          ELSE /\ deps' = [deps EXCEPT ![a] = @ \cup {b}]
               /\ Log([op |-> "incref", a |-> a, b |-> b, res |-> "ok"])

\* remove(p): the node and every edge into it disappear
Remove(p) ==
  /\ nodes' = nodes \ {p}
  /\ deps' = [q \in Paths |-> IF q = p THEN {} ELSE deps[q] \ {p}]
  /\ order' = Without(order, p)
  /\ Log([op |-> "remove", a |-> p, b |-> p, res |-> "ok"])

\* rename_path(old, new), judged only for a fresh `new` (neither registered nor mentioned by
\* an edge): the vertex keeps its edges under the new name and every edge into it follows.
FreshFor(new) == new \notin Mentioned
Rename(old, new) ==
  /\ old # new /\ FreshFor(new)
  /\ nodes' = IF old \in nodes THEN (nodes \ {old}) \cup {new} ELSE nodes
  /\ deps' = [q \in Paths |->
                LET src == IF q = new THEN old ELSE q
                    base == IF q = old THEN {} ELSE deps[src]
                IN IF old \in base THEN (base \ {old}) \cup {new} ELSE base]
  /\ order' = [i \in 1..Len(order) |-> IF order[i] = old THEN new ELSE order[i]]
  /\ Log([op |-> "rename", a |-> old, b |-> new, res |-> "ok"])

\* sort(): succeeds iff the registered part is an acyclic graph without dangling edges;
\* the reference graph itself is unchanged (only iteration order changes).
Sort ==
  /\ UNCHANGED <<nodes, deps, order>>
  /\ Log([op |-> "sort", a |-> "", b |-> "",
          res |-> IF HasCycle THEN "cycle" ELSE IF HasDangling THEN "dangling" ELSE "ok"])

Next == /\ Len(hist) < MaxOps
        /\ \/ \E p \in Paths : AddNode(p)
           \/ \E a, b \in Paths : IncRef(a, b)
           \/ \E p \in Paths : Remove(p)
           \/ \E a, b \in Paths : Rename(a, b)
           \/ Sort

Spec == Init /\ [][Next]_vars

-----------------------------------------------------------------------------
(* Properties of the reference graph itself (design level)                  *)

\* inc_ref refuses exactly the cycle-closing edges, so no history creates a cycle
Acyclic == ~HasCycle

\* a refused inc_ref changes no edge, and no operation other than the ones that say so
\* changes the answers for untouched paths
RefusalKeepsEdges ==
  [][ (hist' # hist /\ hist'[Len(hist')].res = "cycle" /\ hist'[Len(hist')].op = "incref")
        => deps' = deps ]_vars

\* the set of edges only grows by the requested edge
IncRefAddsOnlyRequested ==
  [][ (hist' # hist /\ hist'[Len(hist')].op = "incref")
        => \A p \in Paths : deps'[p] \subseteq deps[p] \cup {hist'[Len(hist')].b} ]_vars

-----------------------------------------------------------------------------
(* Emission for binding pattern P1 (spec -> implementation replay)          *)

\* one record per transition: the history reaching the pre-state, the operation with its
\* expected outcome, and everything observable in the post-state
EmitTransition ==
  PrintT(<<"T", ToJson([hist |-> hist', obs |-> Obs(nodes', deps')])>>)

\* one record per complete behaviour (simulation mode): operations with outcomes and the
\* observable state after each one is recomputed by replaying through the same operators
EmitBehaviour ==
  (Len(hist) = MaxOps) => PrintT(<<"B", ToJson([hist |-> hist, obs |-> Obs(nodes, deps)])>>)
=============================================================================
