SPECIFICATION BSpec
CONSTANTS
  Paths <- MCPaths3
  MaxOps = 6
  DeepLog = FALSE
  RenameUpdatesIndex = TRUE
VIEW bview
INVARIANT IndexConsistent
INVARIANT Refines
