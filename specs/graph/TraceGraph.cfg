SPECIFICATION TraceSpec
CONSTANTS
  Paths <- TPaths
  MaxOps = 1000000
  DeepLog = FALSE
INVARIANT TraceAcyclic
POSTCONDITION TraceAccepted
CHECK_DEADLOCK FALSE
