------------------------------- MODULE TSort -------------------------------
(***************************************************************************)
(* C21, topological sorting.  Layer A: what a topological order of a       *)
(* dependency graph is, and when none exists.  Layer B: transcription of   *)
(* erg_common::tsort::{tsort, dfs} (the `used` / `idx` bookkeeping and the *)
(* cycle test `used /\ ~idx`).  Every graph over `Names` (any vector       *)
(* order, self loops, edges to unregistered names) is an initial state;    *)
(* the invariant says layer B classifies every graph as layer A does, and  *)
(* each graph is emitted for replay on the real tsort.                     *)
(***************************************************************************)
EXTENDS Integers, Sequences, FiniteSets, TLC, Json

CONSTANTS Names,      \* names that may be registered
          Extra       \* names that are never registered (targets of dangling edges)

VARIABLES order,      \* the graph vector: a sequence of distinct registered names
          edges       \* set of <<from, to>>, from registered
vars == <<order, edges>>

Reg == {order[i] : i \in 1..Len(order)}
Deps(n) == {e[2] : e \in {x \in edges : x[1] = n}}

Perms(S) == {s \in [1..Cardinality(S) -> S] : \A i, j \in 1..Cardinality(S) : i # j => s[i] # s[j]}

Init == \E S \in SUBSET Names :
          /\ order \in Perms(S)
          /\ edges \in SUBSET (S \X (Names \cup Extra))
Next == UNCHANGED vars
Spec == Init /\ [][Next]_vars

-----------------------------------------------------------------------------
(* Layer A                                                                  *)
RECURSIVE Reach(_)
Reach(F) == LET N == F \cup UNION {Deps(x) : x \in F \cap Reg} IN IF N = F THEN F ELSE Reach(N)
HasCycle    == \E n \in Reg : n \in Reach(Deps(n))
HasDangling == \E n \in Reg : Deps(n) \ Reg # {}
Expected == IF HasCycle /\ HasDangling THEN "cycle-or-dangling"
            ELSE IF HasCycle THEN "cycle" ELSE IF HasDangling THEN "dangling" ELSE "ok"
IsTopo(s) == /\ {s[i] : i \in 1..Len(s)} = Reg /\ Len(s) = Cardinality(Reg)
             /\ \A i, j \in 1..Len(s) : s[j] \in Deps(s[i]) => j < i

-----------------------------------------------------------------------------
(* Layer B: the code's depth-first search.  Set iteration order in the      *)
(* code is hash order; the model picks one fixed but arbitrary order.       *)
RECURSIVE SetToSeq(_)
SetToSeq(S) == IF S = {} THEN <<>> ELSE LET x == CHOOSE x \in S : TRUE IN <<x>> \o SetToSeq(S \ {x})
Range(s) == {s[i] : i \in 1..Len(s)}

RECURSIVE Dfs(_, _), Fold(_, _)
Dfs(v, st) ==
  LET st1 == [st EXCEPT !.used = @ \cup {v}] IN
  IF v \notin Reg THEN [st1 EXCEPT !.err = "dangling"]
  ELSE LET st2 == Fold(SetToSeq(Deps(v)), st1) IN
       IF st2.err # "none" THEN st2 ELSE [st2 EXCEPT !.idx = Append(@, v)]
Fold(ds, st) ==
  IF ds = <<>> \/ st.err # "none" THEN st
  ELSE LET d == Head(ds) IN
       IF d \in st.used /\ d \notin Range(st.idx) THEN [st EXCEPT !.err = "cycle"]
       ELSE IF d \notin st.used THEN Fold(Tail(ds), Dfs(d, st))
       ELSE Fold(Tail(ds), st)

RECURSIVE Outer(_, _)
Outer(i, st) ==
  IF i > Len(order) \/ st.err # "none" THEN st
  ELSE IF order[i] \in st.used THEN Outer(i + 1, st) ELSE Outer(i + 1, Dfs(order[i], st))
ImplResult == Outer(1, [used |-> {}, idx |-> <<>>, err |-> "none"])

\* the transcription agrees with the definition on every graph
ImplMatchesRef ==
  LET r == ImplResult IN
  /\ (Expected = "ok") <=> (r.err = "none")
  /\ (r.err = "none") => IsTopo(r.idx)
  /\ (r.err = "cycle") => HasCycle
  /\ (r.err = "dangling") => HasDangling

Emit == PrintT(<<"G", ToJson([order |-> order, edges |-> edges, exp |-> Expected])>>)
=============================================================================
