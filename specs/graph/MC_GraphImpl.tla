---- MODULE MC_GraphImpl ----
EXTENDS ModuleGraphImpl
MCPaths3 == {"p1", "p2", "p3"}
====
