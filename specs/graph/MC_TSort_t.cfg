SPECIFICATION Spec
CONSTANTS
  Names <- N4
  Extra <- X0
INVARIANT ImplMatchesRef
INVARIANT Emit
