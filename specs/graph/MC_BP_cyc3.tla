---- MODULE MC_BP_cyc3 ----
EXTENDS BuildPackage
MCMods == {"r","a","b","c"}
MCImp == [r |-> <<"a">>, a |-> <<"b">>, b |-> <<"c">>, c |-> <<"a">>]
====
