----------------------------- MODULE TraceGraph -----------------------------
(***************************************************************************)
(* Pattern P2 for property C21 (implementation -> specification): a trace  *)
(* recorded from the real erg_compiler::module::ModuleGraph (`vh           *)
(* graph-record`) is accepted iff every recorded event is the action of    *)
(* ModuleGraphRef named by the event, taken from the state the previous    *)
(* events led to, with the recorded outcome and with *every* recorded      *)
(* public query equal to the reference graph's answer in the post-state.   *)
(* The events are fully logged (operation, arguments, outcome, all         *)
(* queries), so the trace specification is deterministic and the search    *)
(* linear in the trace length.  Several recorded runs are concatenated,    *)
(* separated by "reset" events.                                            *)
(***************************************************************************)
EXTENDS ModuleGraphRef, IOUtils

TPaths == {"p1", "p2", "p3", "p4", "p5", "p6", "p7", "p8", "p9"}

Rec == ndJsonDeserialize(IOEnv.TRACE)

VARIABLE l          \* position of the next event to be explained

tvars == <<nodes, deps, hist, order, l>>

ToSet(s) == {s[i] : i \in DOMAIN s}

IsEvent(name) == l <= Len(Rec) /\ Rec[l].op = name /\ l' = l + 1

\* the recorded post-state answers, compared with the reference graph after the action
Matches(e) ==
  /\ hist'[Len(hist')].res = e.res
  /\ ToSet(e.nodes) = nodes'
  /\ e.n_iter = Cardinality(nodes')
  /\ e.sorted_ok
  /\ \A p \in Paths :
       /\ e.has[p] = (p \in nodes')
       /\ ToSet(e.parents[p]) = (IF p \in nodes' THEN deps'[p] ELSE {})
       /\ ToSet(e.anc[p]) = AncOf(nodes', deps', p)
       /\ ToSet(e.children[p]) = {x \in nodes' : p \in deps'[x]}
       /\ ToSet(e.dep[p]) = (IF p \in nodes' THEN deps'[p] ELSE {})
       /\ ToSet(e.deep[p]) = AncOf(nodes', deps', p)

TraceInit == Init /\ l = 1

TReset  == IsEvent("reset") /\ nodes' = {} /\ deps' = [p \in Paths |-> {}] /\ hist' = <<>> /\ order' = <<>>
TAdd    == IsEvent("add")    /\ AddNode(Rec[l].a)            /\ Matches(Rec[l])
TIncRef == IsEvent("incref") /\ IncRef(Rec[l].a, Rec[l].b)   /\ Matches(Rec[l])
TRemove == IsEvent("remove") /\ Remove(Rec[l].a)             /\ Matches(Rec[l])
TRename == IsEvent("rename") /\ Rename(Rec[l].a, Rec[l].b)   /\ Matches(Rec[l])
TSort   == IsEvent("sort")   /\ Sort                         /\ Matches(Rec[l])

TraceNext == TReset \/ TAdd \/ TIncRef \/ TRemove \/ TRename \/ TSort

TraceSpec == TraceInit /\ [][TraceNext]_tvars

\* the reference graph's own design property, evaluated on every state of the recorded execution
TraceAcyclic == Acyclic

\* one state per consumed event plus the initial state; prints how far the trace was explained
TraceAccepted ==
  LET d == TLCGet("stats").diameter IN
  /\ PrintT(<<"MATCHED", d - 1, Len(Rec)>>)
  /\ d - 1 = Len(Rec)
=============================================================================
