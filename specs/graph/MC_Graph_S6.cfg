SPECIFICATION Spec
CONSTANTS
  Paths <- MCPaths6
  MaxOps = 40
  DeepLog = TRUE
INVARIANT EmitBehaviour
