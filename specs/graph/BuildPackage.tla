---- MODULE BuildPackage ----
(***************************************************************************)
(* Layer B of C19/C20: the package builder (build_package.rs, promise.rs)  *)
(* as a state machine -- dependency resolution with cycle detection and    *)
(* inlining as a recursive operator, then the main thread and one analysis *)
(* thread per spawned module, the promise table and the module cache.      *)
(* Checked by TLC per import shape (MC_BP_*.tla): AnalysedOnce and         *)
(* Terminates hold for DAGs, diamonds, self-imports and cycles under every *)
(* interleaving; Visible (an importer sees the variables of the module it  *)
(* imports) holds for DAGs and is REFUTED for 2- and 3-cycles -- the       *)
(* design-level counterpart of the C20 known finding (the inlined module   *)
(* of a cycle is lowered before the importer's variables exist).           *)
(***************************************************************************)
EXTENDS Integers, Sequences, FiniteSets, TLC
CONSTANTS Mods, Root, Imp        \* Imp \in [Mods -> Seq(Mods)] : ordered import list of each module
None == "none"
NoWait == [kind |-> "none", dep |-> "none"]

(***************************************************************************)
(* Phase 1: dependency resolution (single-threaded, deterministic DFS of   *)
(* GenericPackageBuilder::resolve / register) as a recursive operator.     *)
(***************************************************************************)
RECURSIVE ReachVia(_,_,_,_)
ReachVia(deps, nodes, p, target) ==       \* deep_depends_on: follows registered nodes only
  LET RECURSIVE R(_,_)
      R(q, seen) == IF q \in seen \/ q \notin nodes THEN FALSE
                    ELSE target \in deps[q] \/ \E n \in deps[q] : R(n, seen \cup {q})
  IN R(p, {})
St0 == [nodes |-> {}, deps |-> [m \in Mods |-> {}], asts |-> {}, inlines |-> [m \in Mods |-> None],
        inl |-> {}, cyclic |-> {}]
RECURSIVE Resolve(_,_,_), Register(_,_,_)
Resolve(st, m, i) ==
  IF i > Len(Imp[m]) THEN [st |-> st, errs |-> {}]
  ELSE LET r1 == Register(st, m, Imp[m][i])
           r2 == Resolve(r1.st, m, i+1)
       IN [st |-> r2.st, errs |-> r1.errs \cup r2.errs]
Register(st, from, to) ==
  LET st2 == [st EXCEPT !.nodes = @ \cup {to, from}] IN
  IF from = to THEN [st |-> st2, errs |-> {}]
  ELSE IF ReachVia(st2.deps, st2.nodes, to, from) THEN [st |-> st2, errs |-> {to}]
  ELSE LET st3 == [st2 EXCEPT !.deps[from] = @ \cup {to}] IN
       IF st3.inlines[to] # None \/ to \in st3.asts THEN [st |-> st3, errs |-> {}]
       ELSE LET r == Resolve(st3, to, 1) IN
            IF r.errs # {}
            THEN LET st4 == [r.st EXCEPT !.inlines[to] = from, !.inl = @ \cup {<<from, to>>}]
                     e2 == r.errs \ {from}
                 IN IF e2 = {} THEN [st |-> [st4 EXCEPT !.cyclic = @ \cup {from}], errs |-> {}]
                    ELSE [st |-> st4, errs |-> e2]
            ELSE [st |-> [r.st EXCEPT !.asts = @ \cup {to}], errs |-> {}]
R0 == Resolve(St0, Root, 1).st
Graph == R0.deps
Nodes == R0.nodes
Inl == R0.inl                 \* (importer, imported) pairs lowered in place
Inlines == R0.inlines
RECURSIVE AncOf(_,_,_)
AncOf(deps, p, seen) == IF p \in seen THEN {} ELSE
   UNION {{q} \cup AncOf(deps, q, seen \cup {p}) : q \in deps[p]}
Ancestors(p) == AncOf(Graph, p, {})
DeepDep(p, t) == ReachVia(Graph, Nodes, p, t)

(***************************************************************************)
(* Phase 2: execute.  Threads: Root (main) and one per spawned module.     *)
(***************************************************************************)
VARIABLES asts,      \* modules whose AST is waiting to be handed to a thread
          copy,      \* main's private graph copy: [nodes, deps]
          mstack,    \* main: stack of build_deps_and_module frames [q (Seq), mark]
          mphase,    \* "exec" | "lower" | "joinall" | "done"
          prom,      \* promise state: none | running | finished | joined
          cached,    \* modules registered in mod_cache
          frames,    \* per thread: stack of lowering frames [m, pc, defined, got]
          waiting,   \* per thread: None or [kind, dep]
          lowered,   \* how many times each module's body was lowered
          useFail    \* set of <<user, dep>> whose attribute lookup failed
vars == <<asts, copy, mstack, mphase, prom, cached, frames, waiting, lowered, useFail>>

Threads == Mods
AncSeqs(S) == {s \in [1..Cardinality(S) -> S] : \A i, j \in 1..Cardinality(S) : i # j => s[i] # s[j]}
Init == /\ asts = R0.asts
        /\ copy = [nodes |-> Nodes, deps |-> Graph]
        /\ \E s \in AncSeqs(Ancestors(Root)) : mstack = << [q |-> s, mark |-> None] >>
        /\ mphase = "exec"
        /\ prom = [m \in Mods |-> "none"]
        /\ cached = {}
        /\ frames = [t \in Threads |-> <<>>]
        /\ waiting = [t \in Threads |-> NoWait]
        /\ lowered = [m \in Mods |-> 0]
        /\ useFail = {}

Top(s) == s[Len(s)]
Pop(s) == SubSeq(s, 1, Len(s)-1)
RemoveFromCopy(c, a) == [nodes |-> c.nodes \ {a}, deps |-> [m \in Mods |-> IF m = a THEN {} ELSE c.deps[m] \ {a}]]
\* parents(a) in the copy = a's own deps (names follow the code: "parents" are the modules a depends on)
Parentless(c, a) == a \notin c.nodes \/ c.deps[a] = {}

\* ---- main thread: build_deps_and_module loop
ExecStep ==
  /\ mphase = "exec" /\ mstack # <<>> /\ waiting[Root] = NoWait
  /\ LET f == Top(mstack) IN
     IF f.q = <<>>
     THEN \* frame finished: mark_as_joined(f.mark) if this was build_inlined_module's recursion
          /\ mstack' = Pop(mstack)
          /\ prom' = IF f.mark # None THEN [prom EXCEPT ![f.mark] = "joined"] ELSE prom
          /\ mphase' = IF Len(mstack) = 1 THEN "lower" ELSE mphase
          /\ frames' = IF Len(mstack) = 1 THEN [frames EXCEPT ![Root] = << [m |-> Root, pc |-> 1, defined |-> FALSE, got |-> [d \in Mods |-> "na"]] >>] ELSE frames
          /\ lowered' = IF Len(mstack) = 1 THEN [lowered EXCEPT ![Root] = @ + 1] ELSE lowered
          /\ UNCHANGED <<asts, copy, cached, waiting, useFail>>
     ELSE LET a == f.q[Len(f.q)]
              rest == SubSeq(f.q, 1, Len(f.q)-1) IN
          IF Parentless(copy, a)
          THEN /\ copy' = RemoveFromCopy(copy, a)
               /\ IF a \in asts
                  THEN \* start_analysis_process: spawn
                       /\ asts' = asts \ {a}
                       /\ prom' = [prom EXCEPT ![a] = "running"]
                       /\ frames' = [frames EXCEPT ![a] = << [m |-> a, pc |-> 1, defined |-> FALSE, got |-> [d \in Mods |-> "na"]] >>]
                       /\ lowered' = [lowered EXCEPT ![a] = @ + 1]
                       /\ mstack' = [mstack EXCEPT ![Len(mstack)].q = rest]
                       /\ UNCHANGED <<cached, waiting, mphase, useFail>>
                  ELSE \* build_inlined_module(a)
                       /\ UNCHANGED <<asts, frames, lowered, cached, mphase, useFail>>
                       /\ IF a \in cached THEN mstack' = [mstack EXCEPT ![Len(mstack)].q = rest] /\ UNCHANGED <<prom, waiting>>
                          ELSE IF prom[a] # "none"
                               THEN /\ waiting' = [waiting EXCEPT ![Root] = [kind |-> "finished", dep |-> a]]
                                    /\ mstack' = [mstack EXCEPT ![Len(mstack)].q = rest] /\ UNCHANGED prom
                               ELSE IF Inlines[a] # None
                                    THEN \E s \in AncSeqs(AncOf(copy'.deps, Inlines[a], {})) :
                                           /\ mstack' = Append([mstack EXCEPT ![Len(mstack)].q = rest], [q |-> s, mark |-> a])
                                           /\ UNCHANGED <<prom, waiting>>
                                    ELSE FALSE   \* unreachable!("not found in inlines and asts")
          ELSE /\ mstack' = [mstack EXCEPT ![Len(mstack)].q = <<a>> \o rest]
               /\ UNCHANGED <<asts, copy, prom, cached, frames, waiting, lowered, mphase, useFail>>

\* ---- lowering (any thread, incl. main once mphase = "lower")
Body(m) == Imp[m]      \* items 1..Len(Imp[m]) are imports; pc = Len+1 defines .x; pc = Len+2.. uses dep.x; then finish
NItems(m) == 2 * Len(Imp[m]) + 1
CanRun(t) == frames[t] # <<>> /\ waiting[t] = NoWait /\ (t = Root => mphase = "lower")
InStack(t, d) == \E i \in 1..Len(frames[t]) : frames[t][i].m = d
StackDefined(t, d) == \E i \in 1..Len(frames[t]) : frames[t][i].m = d /\ frames[t][i].defined
LowerStep(t) ==
  /\ CanRun(t)
  /\ LET f == Top(frames[t])
         n == Len(Imp[f.m]) IN
     IF f.pc <= n
     THEN LET d == Imp[f.m][f.pc] IN
          IF <<f.m, d>> \in Inl /\ d \notin cached
          THEN \* lower_inline_module: lower d in place
               /\ frames' = [frames EXCEPT ![t] = Append([@ EXCEPT ![Len(@)].pc = f.pc + 1, ![Len(@)].got[d] = "full"],
                                                        [m |-> d, pc |-> 1, defined |-> FALSE, got |-> [x \in Mods |-> "na"]])]
               /\ lowered' = [lowered EXCEPT ![d] = @ + 1]
               /\ UNCHANGED <<asts, copy, mstack, mphase, prom, cached, waiting, useFail>>
          ELSE \* get_mod_with_path(d)
               IF d = f.m \/ InStack(t, d)
               THEN /\ frames' = [frames EXCEPT ![t][Len(frames[t])].pc = f.pc + 1, ![t][Len(frames[t])].got[d] = "stack"]
                    /\ UNCHANGED <<asts, copy, mstack, mphase, prom, cached, waiting, lowered, useFail>>
               ELSE IF prom[d] # "none" /\ d \notin cached
                    THEN \* join(d)
                         IF t \in Ancestors(d) \/ d = t \/ ~DeepDep(t, d) \/ prom[d] = "joined"
                         THEN /\ frames' = [frames EXCEPT ![t][Len(frames[t])].pc = f.pc + 1,
                                                         ![t][Len(frames[t])].got[d] = IF d \in cached THEN "full" ELSE "missing"]
                              /\ UNCHANGED <<asts, copy, mstack, mphase, prom, cached, waiting, lowered, useFail>>
                         ELSE /\ waiting' = [waiting EXCEPT ![t] = [kind |-> "join", dep |-> d]]
                              /\ UNCHANGED <<asts, copy, mstack, mphase, prom, cached, frames, lowered, useFail>>
                    ELSE /\ frames' = [frames EXCEPT ![t][Len(frames[t])].pc = f.pc + 1,
                                                    ![t][Len(frames[t])].got[d] = IF d \in cached THEN "full" ELSE "missing"]
                         /\ UNCHANGED <<asts, copy, mstack, mphase, prom, cached, waiting, lowered, useFail>>
     ELSE IF f.pc = n + 1
     THEN /\ frames' = [frames EXCEPT ![t][Len(frames[t])].pc = f.pc + 1, ![t][Len(frames[t])].defined = TRUE]
          /\ UNCHANGED <<asts, copy, mstack, mphase, prom, cached, waiting, lowered, useFail>>
     ELSE IF f.pc <= NItems(f.m)
     THEN LET d == Imp[f.m][f.pc - n - 1]
              ok == \/ f.got[d] = "full" /\ (d \in cached \/ StackDefined(t, d) \/ d = f.m)
                    \/ f.got[d] = "stack" /\ (StackDefined(t, d) \/ d = f.m)
          IN /\ frames' = [frames EXCEPT ![t][Len(frames[t])].pc = f.pc + 1]
             /\ useFail' = IF ok THEN useFail ELSE useFail \cup {<<f.m, d>>}
             /\ UNCHANGED <<asts, copy, mstack, mphase, prom, cached, waiting, lowered>>
     ELSE \* end of this module's body: cache.register(m)
          /\ cached' = cached \cup {f.m}
          /\ frames' = [frames EXCEPT ![t] = Pop(@)]
          /\ IF Len(frames[t]) = 1
             THEN IF t = Root THEN mphase' = "joinall" /\ UNCHANGED prom
                  ELSE prom' = [prom EXCEPT ![t] = IF @ = "running" THEN "finished" ELSE @] /\ UNCHANGED mphase
             ELSE UNCHANGED <<prom, mphase>>
          /\ UNCHANGED <<asts, copy, mstack, waiting, lowered, useFail>>

\* ---- blocking waits resolve
WaitStep(t) ==
  /\ waiting[t] # NoWait
  /\ LET w == waiting[t] IN
     \/ /\ w.kind = "finished" /\ prom[w.dep] \in {"finished", "joined"}
        /\ waiting' = [waiting EXCEPT ![t] = NoWait] /\ UNCHANGED <<prom, frames>>
     \/ /\ w.kind = "join" /\ prom[w.dep] \in {"finished", "joined"}
        /\ prom' = [prom EXCEPT ![w.dep] = "joined"]
        /\ waiting' = [waiting EXCEPT ![t] = NoWait]
        /\ frames' = [frames EXCEPT ![t][Len(frames[t])].pc = @ + 1,
                                    ![t][Len(frames[t])].got[w.dep] = IF w.dep \in cached THEN "full" ELSE "missing"]
  /\ UNCHANGED <<asts, copy, mstack, mphase, cached, lowered, useFail>>

JoinAll == /\ mphase = "joinall"
           /\ \A m \in Mods : (prom[m] \in {"running"} /\ ~(Root \in Ancestors(m)) /\ DeepDep(Root, m)) => FALSE
           /\ mphase' = "done"
           /\ UNCHANGED <<asts, copy, mstack, prom, cached, frames, waiting, lowered, useFail>>
Done == mphase = "done" /\ UNCHANGED vars
Next == ExecStep \/ (\E t \in Threads : LowerStep(t) \/ WaitStep(t)) \/ JoinAll \/ Done
Spec == Init /\ [][Next]_vars /\ WF_vars(Next)

Visible == useFail = {}
AnalysedOnce == \A m \in Mods : lowered[m] <= 1
Terminates == <>(mphase = "done")
====
