------------------------------- MODULE ImportGraph -------------------------------
(***************************************************************************)
(* C20 (and the project generator of C19): multi-module programs.          *)
(*                                                                         *)
(* A project is an import function over modules m1 (the entry) .. mN: each *)
(* module imports an ordered list of modules (itself included: self-import,*)
(* cycles of any length, diamonds), defines typed public bindings, and     *)
(* prints "init <m>" as the last statement of its top level.               *)
(*                                                                         *)
(* The state machine is the execution of the entry module under the        *)
(* semantics the property states: importing a module that has not been     *)
(* started runs its top level to completion (its own imports first, in     *)
(* order); importing a module that is running or done does nothing.  The   *)
(* initial states are all import functions, so TLC explores every graph    *)
(* shape.  Invariants (checked by TLC on every reachable state):           *)
(*   Once       no module's top level is run twice                         *)
(*   StackOK    the import stack never holds a module twice (termination:  *)
(*              its depth is bounded by the number of modules)             *)
(* and, in final states,                                                   *)
(*   AllReached every module reachable from the entry has run.             *)
(* Final states are emitted as replay cases: the graph, the set of         *)
(* reachable modules, whether the graph has a cycle, and the order of the  *)
(* "init" lines.                                                           *)
(***************************************************************************)
EXTENDS Integers, Sequences, FiniteSets, TLC, Json

CONSTANTS N,          \* number of modules
          MaxImports, \* at most this many imports per module
          Shapes      \* "all": every import function; "sim": imports are drawn one by one (for -simulate);
                      \* "dag": as "sim" but a module imports only higher-numbered ones (acyclic by construction)

Mods == 1..N
ImportLists == UNION {[1..k -> Mods] : k \in 0..MaxImports}
NoDup(s) == \A i, j \in 1..Len(s) : i # j => s[i] # s[j]

VARIABLES imp,     \* the project: imp[m] = sequence of imported modules
          stack,   \* running imports: sequence of [m, next]  (next import to perform)
          started, \* modules whose top level has begun
          out,     \* modules in the order their "init" line is printed
          phase    \* "build": the project is still being drawn (Shapes = "sim") | "run"
vars == <<imp, stack, started, out, phase>>

Init == /\ IF Shapes = "all" THEN imp \in [Mods -> {s \in ImportLists : NoDup(s)}] /\ phase = "run"
                             ELSE imp = [m \in Mods |-> <<>>] /\ phase = "build"
        /\ stack = <<[m |-> 1, next |-> 1]>>
        /\ started = {1}
        /\ out = <<>>

Top == stack[Len(stack)]
\* the running module performs its next import
\* drawing the project one import at a time (simulation of large projects)
AddImport(m, d) == /\ phase = "build" /\ Len(imp[m]) < MaxImports /\ (Shapes = "dag" => d > m) /\ \A i \in 1..Len(imp[m]) : imp[m][i] # d
                   /\ imp' = [imp EXCEPT ![m] = Append(@, d)] /\ UNCHANGED <<stack, started, out, phase>>
StartRun == phase = "build" /\ phase' = "run" /\ UNCHANGED <<imp, stack, started, out>>
Import ==
  /\ phase = "run" /\ stack # <<>> /\ Top.next <= Len(imp[Top.m])
  /\ LET d == imp[Top.m][Top.next]
         bumped == [stack EXCEPT ![Len(stack)].next = @ + 1]
     IN IF d \in started
        THEN stack' = bumped /\ UNCHANGED started          \* running (cycle) or done: nothing to execute
        ELSE stack' = Append(bumped, [m |-> d, next |-> 1]) /\ started' = started \cup {d}
  /\ UNCHANGED <<imp, out, phase>>
\* all imports done: the rest of the top level runs and prints
Finish ==
  /\ phase = "run" /\ stack # <<>> /\ Top.next > Len(imp[Top.m])
  /\ out' = Append(out, Top.m)
  /\ stack' = SubSeq(stack, 1, Len(stack) - 1)
  /\ UNCHANGED <<imp, started, phase>>
Next == Import \/ Finish \/ StartRun \/ \E m, d \in Mods : AddImport(m, d)
Spec == Init /\ [][Next]_vars /\ WF_vars(Next)

Done == phase = "run" /\ stack = <<>>
RECURSIVE ReachFrom(_, _)
ReachFrom(S, k) == IF k = 0 THEN S ELSE ReachFrom(S \cup UNION {{imp[m][i] : i \in 1..Len(imp[m])} : m \in S}, k - 1)
Reachable == ReachFrom({1}, N)
\* m can reach itself through at least one import
OnCycle(m) == m \in ReachFrom({imp[m][i] : i \in 1..Len(imp[m])}, N)
Cyclic == \E m \in Reachable : OnCycle(m)

Once == \A i, j \in 1..Len(out) : i # j => out[i] # out[j]
StackOK == \A i, j \in 1..Len(stack) : i # j => stack[i].m # stack[j].m
AllReached == Done => {out[i] : i \in 1..Len(out)} = Reachable
Terminates == <>Done

Emit == Done => PrintT(<<"P", ToJson([imp |-> imp, order |-> out, reachable |-> Reachable, cyclic |-> Cyclic,
                                       oncycle |-> {m \in Reachable : OnCycle(m)}])>>)
=============================================================================
