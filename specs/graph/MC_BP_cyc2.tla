---- MODULE MC_BP_cyc2 ----
EXTENDS BuildPackage
MCMods == {"r","a","b"}
MCImp == [r |-> <<"a">>, a |-> <<"b">>, b |-> <<"a">>]
====
