SPECIFICATION Spec
CONSTANTS
  Mods <- MCMods
  Root = "r"
  Imp <- MCImp
INVARIANT Visible
INVARIANT AnalysedOnce
PROPERTY Terminates
