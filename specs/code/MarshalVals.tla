----------------------------- MODULE MarshalVals -----------------------------
(***************************************************************************)
(* C15: the constant values to serialise, derived in prefix form (as in    *)
(* JsonVal): leaves <<kind, payload>> with payload naming a boundary value *)
(* (integers around 2**15, 2**30, 2**31, 2**32, 2**44, 2**45, 2**59, 2**60, 2**63, 2**64-1 -- i.e. bit lengths on both sides of every multiple of 15;     *)
(* floats incl. -0.0, infinities, NaN; strings empty / ASCII / 255 and 256 *)
(* characters / 2-, 3-, 4-byte characters), tuples of up to Depth levels.  *)
(***************************************************************************)
EXTENDS Integers, Sequences, FiniteSets, TLC, Json
CONSTANTS Depth, Width
Nats == {"0", "1", "255", "32767", "32768", "1073741823", "1073741824", "2147483647", "2147483648", "4294967295", "4294967296",
         "17592186044416", "35184372088831", "35184372088832", "576460752303423488", "1152921504606846975", "9223372036854775807", "9223372036854775808", "18446744073709551615"}
Ints == {"-1", "-32768", "-2147483647", "-2147483648"}
Floats == {"0.0", "-0.0", "1.5", "-2.25", "inf", "-inf", "nan", "1e308", "5e-324"}
Strs == {"", "ab", "ascii255", "ascii256", "u2", "u3", "u4", "mixed", "quote"}
VARIABLES t, todo
vars == <<t, todo>>
Init == t = <<>> /\ todo = <<Depth>>
Leaf(k, p) == /\ todo # <<>> /\ t' = Append(t, <<k, p>>) /\ todo' = Tail(todo)
Tup(n) == /\ todo # <<>> /\ Head(todo) > 0 /\ t' = Append(t, <<"tuple", ToString(n)>>)
          /\ todo' = [i \in 1..n |-> Head(todo) - 1] \o Tail(todo)
Next == \/ (\E p \in Nats : Leaf("nat", p))
        \/ (\E p \in Ints : Leaf("int", p))
        \/ (\E p \in Floats : Leaf("float", p))
        \/ (\E p \in Strs : Leaf("str", p))
        \/ (\E p \in {"True", "False"} : Leaf("bool", p))
        \/ Leaf("none", "None")
        \/ (\E n \in 0..Width : Tup(n))
Spec == Init /\ [][Next]_vars
Complete == todo = <<>>
Emit == Complete => PrintT(<<"M", ToJson([t |-> t])>>)
=============================================================================
