SPECIFICATION Spec
CONSTANTS
  Depth = 1
  Width = 2
INVARIANT Emit
