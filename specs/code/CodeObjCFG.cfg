SPECIFICATION Spec
CONSTRAINT Bounded
INVARIANT InCode
INVARIANT NoUnderflow
INVARIANT WithinDeclared
INVARIANT IndicesInRange
