SPECIFICATION Spec
INVARIANT RoundTrips
