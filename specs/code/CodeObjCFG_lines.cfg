SPECIFICATION Spec
CONSTRAINT Bounded
INVARIANT LineInSource
