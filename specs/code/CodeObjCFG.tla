----------------------------- MODULE CodeObjCFG -----------------------------
(***************************************************************************)
(* C14: emitted code objects are structurally valid for the interpreter.   *)
(*                                                                         *)
(* Artefact model checking: the constant Code (read from a JSON file       *)
(* produced by py/verif/extract_cfg.py under the target interpreter) is    *)
(* a list of code objects; each has its instruction table with, per        *)
(* instruction, the fall-through and jump stack effects the target's own   *)
(* dis.stack_effect reports, the jump target, the line the line table      *)
(* assigns, and (3.11) the exception-table handler that covers it.         *)
(* The state machine is an abstract interpreter over (code object,         *)
(* instruction index, operand-stack depth); TLC explores every path of     *)
(* every code object.                                                      *)
(***************************************************************************)
EXTENDS Integers, Sequences, TLC, Json, IOUtils

Doc == JsonDeserialize(IOEnv.VERIF_CODE)
Code == Doc.codes
VARIABLES c, pc, depth
vars == <<c, pc, depth>>

\* code objects already reported for an invariant in an earlier run of the same check (so that one
\* TLC run per remaining violation finds them all)
Reported(inv) == \E i \in 1..Len(Doc.excl[inv]) : Doc.excl[inv][i] = c


Init == c \in 1..Len(Code) /\ pc = 1 /\ depth = 0
N == Len(Code[c].ins)
I == Code[c].ins[pc]

Fall == /\ I.hasfall /\ pc' = pc + 1 /\ depth' = depth + I.fall /\ UNCHANGED c
Jump == /\ I.hasjump /\ pc' = I.target /\ depth' = depth + I.jump /\ UNCHANGED c
\* 3.11: an instruction covered by an exception-table entry may transfer to its handler with the
\* stack cut to the entry's depth, plus the exception (and the offset when `lasti` is set)
Handler == /\ I.hashandler /\ pc' = I.htarget /\ depth' = I.hdepth + I.hpush /\ UNCHANGED c
Next == pc \in 1..N /\ (Fall \/ Jump \/ Handler)
Spec == Init /\ [][Next]_vars

\* exploration bound: a code object whose depth escapes the declared size (already a violation of
\* WithinDeclared / NoUnderflow) is not followed further
Bounded == depth <= Code[c].stacksize + 4 /\ depth >= -4

\* every jump / fall-through lands on an instruction of the same code object
InCode == Reported("InCode") \/ pc \in 1..N
\* no pop from an empty stack along any path
\* (3.7's dis.stack_effect cannot tell the two edges of a branch apart: depths are judged from 3.8 on)
NoUnderflow == ~Doc.precise \/ Reported("NoUnderflow") \/ depth >= 0
\* the declared stack size covers every reachable depth
WithinDeclared == ~Doc.precise \/ Reported("WithinDeclared") \/ depth <= Code[c].stacksize
\* the line table gives every reachable instruction a line of the source file
LineInSource == Reported("LineInSource") \/ ((pc \in 1..N) => (I.line >= 1 /\ I.line <= Code[c].nlines))
\* static table checks made by the extractor (index of every const/name/local/free operand in range)
IndicesInRange == Reported("IndicesInRange") \/ Code[c].indices_ok
=============================================================================
