------------------------------- MODULE Marshal -------------------------------
(***************************************************************************)
(* C15: constants round-trip through marshal.                              *)
(*                                                                         *)
(* The decoder side of CPython's marshal wire format for constant values,  *)
(* as a recursive-descent machine over a byte sequence:                    *)
(*   'i' int32   'l' long (signed digit count, 15-bit digits)   'g' double *)
(*   'T' 'F' 'N'   'z' 'Z' short ASCII   'a' 'A' ASCII   'u' 't' UTF-8     *)
(*   's' bytes   ')' small tuple   '(' tuple   'r' reference               *)
(* a tag with bit 0x80 set (FLAG_REF) also enters the object in the        *)
(* reference table.  Dec(bs, pos, refs) returns                            *)
(*   [ok, val, pos, refs]  with val a tagged value:                        *)
(*   [t |-> "int", dec |-> decimal string] [t |-> "float", bytes |-> 8 b]  *)
(*   [t |-> "str", bytes |-> UTF-8 bytes, kind |-> tag letter]             *)
(*   [t |-> "bool", b] [t |-> "none"] [t |-> "tuple", xs |-> Seq]          *)
(* Artefacts: the byte strings the real serialiser (ValueObj::into_bytes)  *)
(* produced for the values MarshalVals.tla derived; the invariant says     *)
(* each decodes completely (no trailing bytes, no overrun) to the expected *)
(* value with the expected type.                                           *)
(***************************************************************************)
EXTENDS Integers, Sequences, FiniteSets, TLC, Json, IOUtils, BigInt

Cases == JsonDeserialize(IOEnv.VERIF_MARSHAL).cases

Fail(pos) == [ok |-> FALSE, val |-> [t |-> "none"], pos |-> pos, refs |-> <<>>]
Have(bs, pos, n) == pos + n - 1 <= Len(bs)
U32(bs, pos) == bs[pos] + 256 * bs[pos + 1] + 65536 * bs[pos + 2] + 16777216 * (bs[pos + 3] % 128)   \* < 2^31
I32(bs, pos) == IF bs[pos + 3] >= 128
                THEN (bs[pos] + 256 * bs[pos + 1] + 65536 * bs[pos + 2] + 16777216 * (bs[pos + 3] - 128)) - 2147483647 - 1
                ELSE U32(bs, pos)

\* digits (15-bit, least significant first) -> BigInt
RECURSIVE Digits(_, _, _)
Digits(bs, pos, n) == IF n = 0 THEN Zero
                      ELSE Add(FromInt(bs[pos] + 256 * bs[pos + 1]), Mul(FromInt(32768), Digits(bs, pos + 2, n - 1)))

RECURSIVE Dec(_, _, _), DecSeq(_, _, _, _, _)
Dec(bs, pos, refs) ==
  IF ~Have(bs, pos, 1) THEN Fail(pos)
  ELSE LET b == bs[pos]
           flag == b >= 128
           tag == IF flag THEN b - 128 ELSE b
           Done(v, p) == [ok |-> TRUE, val |-> v, pos |-> p, refs |-> IF flag THEN Append(refs, v) ELSE refs]
           StrOf(kind, lenbytes) ==
             IF ~Have(bs, pos + 1, lenbytes) THEN Fail(pos)
             ELSE LET n == IF lenbytes = 1 THEN bs[pos + 1] ELSE U32(bs, pos + 1)
                      start == pos + 1 + lenbytes
                  IN IF ~Have(bs, start, n) \/ (lenbytes = 4 /\ bs[pos + 4] >= 128) THEN Fail(pos)
                     ELSE Done([t |-> "str", kind |-> kind, bytes |-> SubSeq(bs, start, start + n - 1)], start + n)
       IN CASE tag = 105 ->                                                                                                           \* 'i'
                 IF ~Have(bs, pos + 1, 4) THEN Fail(pos)
                 ELSE LET low == FromInt(U32(bs, pos + 1))       \* the low 31 bits; TLC integers are 32-bit, so the sign bit goes through BigInt
                          v == IF bs[pos + 4] >= 128 THEN Sub(low, Mul(FromInt(65536), FromInt(32768))) ELSE low
                      IN Done([t |-> "int", dec |-> ToDec(v)], pos + 5)
            [] tag = 108 ->                                                                                                           \* 'l'
                 IF ~Have(bs, pos + 1, 4) THEN Fail(pos)
                 ELSE LET sz == I32(bs, pos + 1) n == IF sz < 0 THEN -sz ELSE sz IN
                      IF n > 400 \/ ~Have(bs, pos + 5, 2 * n) THEN Fail(pos)
                      ELSE LET mag == Digits(bs, pos + 5, n) IN
                           Done([t |-> "int", dec |-> ToDec(IF sz < 0 THEN Neg(mag) ELSE mag)], pos + 5 + 2 * n)
            [] tag = 103 -> IF Have(bs, pos + 1, 8) THEN Done([t |-> "float", bytes |-> SubSeq(bs, pos + 1, pos + 8)], pos + 9) ELSE Fail(pos)  \* 'g'
            [] tag = 84 -> Done([t |-> "bool", b |-> TRUE], pos + 1)
            [] tag = 70 -> Done([t |-> "bool", b |-> FALSE], pos + 1)
            [] tag = 78 -> Done([t |-> "none"], pos + 1)
            [] tag = 122 -> StrOf("z", 1) [] tag = 90 -> StrOf("Z", 1)
            [] tag = 97 -> StrOf("a", 4) [] tag = 65 -> StrOf("A", 4)
            [] tag = 117 -> StrOf("u", 4) [] tag = 116 -> StrOf("t", 4) [] tag = 115 -> StrOf("s", 4)
            [] tag = 41 -> IF Have(bs, pos + 1, 1) THEN DecSeq(bs, pos + 2, bs[pos + 1], refs, <<>>) ELSE Fail(pos)                  \* ')'
            [] tag = 40 -> IF Have(bs, pos + 1, 4) /\ bs[pos + 4] = 0 /\ bs[pos + 3] = 0 THEN DecSeq(bs, pos + 5, U32(bs, pos + 1), refs, <<>>) ELSE Fail(pos)
            [] tag = 114 -> IF Have(bs, pos + 1, 4) /\ U32(bs, pos + 1) < Len(refs) THEN [ok |-> TRUE, val |-> refs[U32(bs, pos + 1) + 1], pos |-> pos + 5, refs |-> refs] ELSE Fail(pos)
            [] OTHER -> Fail(pos)
DecSeq(bs, pos, n, refs, acc) ==
  IF n = 0 THEN [ok |-> TRUE, val |-> [t |-> "tuple", xs |-> acc], pos |-> pos, refs |-> refs]
  ELSE LET r == Dec(bs, pos, refs) IN
       IF ~r.ok THEN r ELSE DecSeq(bs, r.pos, n - 1, r.refs, Append(acc, r.val))

\* does a decoded value equal the expected description?  (strings by UTF-8 bytes; the tag letter only
\* has to denote a text string; integers by decimal text; floats by their 8 bytes)
RECURSIVE Same(_, _)
Same(v, e) ==
  /\ v.t = e.t
  /\ CASE e.t = "int" -> v.dec = e.dec
       [] e.t = "float" -> v.bytes = e.bytes
       [] e.t = "str" -> v.bytes = e.bytes /\ v.kind \in {"z", "Z", "a", "A", "u", "t"} /\ (v.kind \in {"z", "Z", "a", "A"} => \A i \in 1..Len(v.bytes) : v.bytes[i] < 128)
       [] e.t = "bool" -> v.b = e.b
       [] e.t = "none" -> TRUE
       [] e.t = "tuple" -> Len(v.xs) = Len(e.xs) /\ \A i \in 1..Len(e.xs) : Same(v.xs[i], e.xs[i])

VARIABLE k
Init == k \in 1..Len(Cases)
Next == UNCHANGED k
Spec == Init /\ [][Next]_k

RoundTrips == LET r == Dec(Cases[k].bytes, 1, <<>>) IN
              r.ok /\ r.pos = Len(Cases[k].bytes) + 1 /\ Same(r.val, Cases[k].exp)
=============================================================================
