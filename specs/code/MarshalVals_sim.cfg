SPECIFICATION Spec
CONSTANTS
  Depth = 3
  Width = 3
INVARIANT Emit
