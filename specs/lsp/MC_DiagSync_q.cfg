SPECIFICATION Spec
CONSTANTS
  MaxLines = 3
  MaxNotifs = 1
  Names <- N3
VIEW View
INVARIANT FreshIsFunctionOfText
INVARIANT TextTracksEdits
