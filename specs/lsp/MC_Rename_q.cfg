SPECIFICATION Spec
CONSTANTS
  Names <- NamePool
  MaxLines = 4
  Templates <- AllT
INVARIANT WellScoped
INVARIANT Emit
