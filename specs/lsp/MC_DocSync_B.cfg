SPECIFICATION Spec
CONSTANTS
  Alphabet <- A5
  MaxLen = 3
  Texts <- T6
  MaxNotifs = 3
INVARIANT ImplFindsOffsets
