SPECIFICATION Spec
CONSTANTS
  Alphabet <- A5
  MaxLen = 4
  Texts <- T6
  MaxNotifs = 6
VIEW view
ACTION_CONSTRAINT EmitTransition
