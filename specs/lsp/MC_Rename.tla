---- MODULE MC_Rename ----
EXTENDS Rename
NamePool == {"x", "y"}
AllT == {"def", "use", "strlit", "strlitu", "compr", "fclose", "fshadow", "fdef", "lam", "call", "user"}
====
