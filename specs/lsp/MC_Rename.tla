---- MODULE MC_Rename ----
EXTENDS Rename
NamePool == {"x", "y"}
AllT == {"def", "use", "strlit", "fclose", "fshadow", "fdef", "lam", "call", "user"}
====
