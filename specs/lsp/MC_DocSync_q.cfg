SPECIFICATION Spec
CONSTANTS
  Alphabet <- A5
  MaxLen = 3
  Texts <- T6
  MaxNotifs = 6
VIEW view
ACTION_CONSTRAINT EmitTransition
