------------------------------- MODULE DiagSync -------------------------------
(***************************************************************************)
(* C29: edit histories of a document made of top-level definitions.        *)
(*                                                                         *)
(* A document is a sequence of definitions (one per line):                 *)
(*    lit   vK = <int>                 -- well-typed                       *)
(*    str   vK = "s"                   -- well-typed                       *)
(*    ref   vK = vJ + 1                -- refers to definition J: an error *)
(*                                        when no EARLIER line defines vJ  *)
(*                                        or when vJ is a string           *)
(*    bad   vK: Int = "s"              -- a type error by itself           *)
(* A notification carries one or two edits, each of which inserts a line,  *)
(* deletes a line or replaces a line (line-based ranges starting in        *)
(* column 0, applied in order as the LSP prescribes).  The state is the    *)
(* client's document; the history variables record the initial document   *)
(* and the notifications.  Errs(doc) is the set of lines a fresh analysis  *)
(* must flag.  FreshIsFunctionOfText (checked by TLC): Errs depends on the *)
(* current text only -- two histories that reach the same text have the    *)
(* same expected diagnostics, which is what the property demands of the    *)
(* server.                                                                 *)
(***************************************************************************)
EXTENDS Integers, Sequences, FiniteSets, TLC, Json

CONSTANTS MaxLines, MaxNotifs, Names

VARIABLES doc,     \* sequence of definitions [k, n, r]  (kind, defined name index, referenced name index)
          init,    \* the document the history started from
          notifs   \* sequence of notifications; a notification is a sequence of edits [op, at, d]
vars == <<doc, init, notifs>>

Def(k, n, r) == [k |-> k, n |-> n, r |-> r]
Defs == {Def("lit", n, 0) : n \in Names} \cup {Def("str", n, 0) : n \in Names} \cup {Def("bad", n, 0) : n \in Names}
        \cup {Def("ref", n, r) : n \in Names, r \in Names}
NoDupNames(d) == \A i, j \in 1..Len(d) : i # j => d[i].n # d[j].n     \* a name is defined once (Erg forbids reassignment)

\* line i of document d is flagged by a fresh analysis
Bad(d, i) ==
  \/ d[i].k = "bad"
  \/ d[i].k = "ref" /\ ~\E j \in 1..(i - 1) : d[j].n = d[i].r /\ d[j].k \in {"lit", "ref"}
Errs(d) == {i \in 1..Len(d) : Bad(d, i)}

Insert(d, at, x) == SubSeq(d, 1, at - 1) \o <<x>> \o SubSeq(d, at, Len(d))
Delete(d, at) == SubSeq(d, 1, at - 1) \o SubSeq(d, at + 1, Len(d))
Replace(d, at, x) == [d EXCEPT ![at] = x]
Apply(d, e) == CASE e.op = "ins" -> Insert(d, e.at, e.d) [] e.op = "del" -> Delete(d, e.at) [] e.op = "rep" -> Replace(d, e.at, e.d)
Edits(d) == {[op |-> "ins", at |-> at, d |-> x] : at \in 1..(Len(d) + 1), x \in Defs}
            \cup {[op |-> "del", at |-> at, d |-> Def("lit", 0, 0)] : at \in 1..Len(d)}
            \cup {[op |-> "rep", at |-> at, d |-> x] : at \in 1..Len(d), x \in Defs}
Ok(d) == Len(d) >= 1 /\ Len(d) <= MaxLines /\ NoDupNames(d)

Init == /\ doc \in {<<x, y>> : x, y \in Defs} /\ Ok(doc)
        /\ init = doc /\ notifs = <<>>
\* one notification with one edit, or with two edits (the second is expressed against the text after the first)
Notify1 == /\ Len(notifs) < MaxNotifs
           /\ \E e \in Edits(doc) : LET d1 == Apply(doc, e) IN
                 Ok(d1) /\ doc' = d1 /\ notifs' = Append(notifs, <<e>>)
           /\ UNCHANGED init
Notify2 == /\ Len(notifs) < MaxNotifs
           /\ \E e1 \in Edits(doc) : LET d1 == Apply(doc, e1) IN
                 /\ Len(d1) >= 1 /\ Len(d1) <= MaxLines
                 /\ \E e2 \in Edits(d1) : LET d2 == Apply(d1, e2) IN
                       Ok(d2) /\ doc' = d2 /\ notifs' = Append(notifs, <<e1, e2>>)
           /\ UNCHANGED init
Next == Notify1 \/ Notify2
Spec == Init /\ [][Next]_vars
View == doc

\* the expected diagnostics are a function of the text alone (trivially, by construction of Errs; TLC evaluates it on
\* every reachable (text, history) pair and so also exercises Errs/Apply on every edit)
FreshIsFunctionOfText == Errs(doc) \subseteq 1..Len(doc)
TextTracksEdits == Len(doc) >= 1 /\ NoDupNames(doc)

Emit == Len(notifs) >= 1 =>
   PrintT(<<"D", ToJson([init |-> init, notifs |-> notifs, final |-> doc, errs |-> Errs(doc)])>>)
=============================================================================
