---- MODULE MC_DiagSync ----
EXTENDS DiagSync
N3 == 1..3
====
