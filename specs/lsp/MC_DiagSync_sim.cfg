SPECIFICATION Spec
CONSTANTS
  MaxLines = 4
  MaxNotifs = 3
  Names <- N3
INVARIANT FreshIsFunctionOfText
INVARIANT TextTracksEdits
INVARIANT Emit
