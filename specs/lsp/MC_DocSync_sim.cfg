SPECIFICATION Spec
CONSTANTS
  Alphabet <- A5
  MaxLen = 30
  Texts <- T9
  MaxNotifs = 25
INVARIANT EmitBehaviour
