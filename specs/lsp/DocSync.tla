------------------------------- MODULE DocSync -------------------------------
(***************************************************************************)
(* C28: the language server's copy of a document equals the client's.      *)
(*                                                                         *)
(* A document is a sequence of character classes:                          *)
(*   "a"  ASCII (1 byte, 1 UTF-16 unit)   "e" 2-byte char (1 unit)         *)
(*   "j"  3-byte BMP char (1 unit)        "x" astral char (4 bytes, 2 u.)  *)
(*   "n"  line feed                                                        *)
(* The client edits its copy by replacing doc[i+1..j] with a text and      *)
(* tells the server with an incremental change whose range is expressed,   *)
(* per the LSP specification, as (line, UTF-16 column) positions; a        *)
(* column beyond the end of the line means the end of the line (Overshoot).*)
(* Layer A: after every notification server = client.                      *)
(* Layer B (ImplOffset): els::util::pos_to_byte_index as written before    *)
(* the fix -- columns counted in characters, a position that is not found  *)
(* maps to "last character + 1".                                           *)
(***************************************************************************)
EXTENDS Integers, Sequences, FiniteSets, TLC, Json

CONSTANTS Alphabet,      \* subset of {"a","e","j","x","n"}
          MaxLen,        \* bound on document length
          Texts,         \* set of replacement texts (sequences over Alphabet)
          MaxNotifs      \* bound on history length

Units(c) == IF c = "x" THEN 2 ELSE 1
Bytes(c) == CASE c = "a" -> 1 [] c = "n" -> 1 [] c = "e" -> 2 [] c = "j" -> 3 [] c = "x" -> 4

VARIABLES client, hist
vars == <<client, hist>>
view == client

\* LSP position of character offset i (0..Len(d)) in document d
LineOf(d, i) == Cardinality({k \in 1..i : d[k] = "n"})
LineStart(d, i) == IF \E k \in 1..i : d[k] = "n" THEN (CHOOSE k \in 1..i : d[k] = "n" /\ \A m \in (k+1)..i : d[m] # "n") ELSE 0
RECURSIVE SumUnits(_, _, _)
SumUnits(d, from, to) == IF from > to THEN 0 ELSE Units(d[from]) + SumUnits(d, from + 1, to)
ColOf(d, i) == SumUnits(d, LineStart(d, i) + 1, i)
AtLineEnd(d, i) == IF i >= Len(d) THEN TRUE ELSE d[i + 1] = "n"

Replace(d, i, j, t) == SubSeq(d, 1, i) \o t \o SubSeq(d, j + 1, Len(d))

Init == client = <<>> /\ hist = <<>>

\* one change: replace client[i+1..j] by t; `os`/`oe` add a column overshoot at a line end
Change(i, j, t, os, oe) ==
  /\ i <= j /\ (i = j => os = oe)
  /\ Len(client) - (j - i) + Len(t) <= MaxLen
  /\ (os > 0 => AtLineEnd(client, i)) /\ (oe > 0 => AtLineEnd(client, j))
  /\ client' = Replace(client, i, j, t)
  /\ hist' = Append(hist, [sl |-> LineOf(client, i), sc |-> ColOf(client, i) + os,
                           el |-> LineOf(client, j), ec |-> ColOf(client, j) + oe,
                           text |-> t, after |-> client'])

Next == /\ Len(hist) < MaxNotifs
        /\ \E i, j \in 0..Len(client), t \in Texts, os, oe \in {0, 3} : Change(i, j, t, os, oe)
Spec == Init /\ [][Next]_vars

-----------------------------------------------------------------------------
(* Layer B: character offset the pre-fix code computes for (line, col)      *)
RECURSIVE Scan(_, _, _, _, _, _)
Scan(d, k, line, col, pl, pc) ==        \* k = index of next character (1-based)
  IF k > Len(d) THEN Len(d)             \* "EOF": last char index + 1 (as a character offset)
  ELSE IF line = pl /\ col = pc THEN k - 1
  ELSE IF d[k] = "n" THEN Scan(d, k + 1, line + 1, 0, pl, pc)
  ELSE Scan(d, k + 1, line, col + 1, pl, pc)
ImplOffset(d, pl, pc) == IF d = <<>> THEN 0 ELSE Scan(d, 1, 0, 0, pl, pc)

\* design-level obligation on layer B: it finds the offset the client meant
ImplFindsOffsets ==
  \A k \in 1..Len(hist) :
    LET h == hist[k]
        before == IF k = 1 THEN <<>> ELSE hist[k - 1].after
    IN Replace(before, ImplOffset(before, h.sl, h.sc), ImplOffset(before, h.el, h.ec), h.text) = h.after

EmitTransition == PrintT(<<"D", ToJson([hist |-> hist'])>>)
EmitBehaviour == Len(hist) = MaxNotifs => PrintT(<<"S", ToJson([hist |-> hist])>>)
=============================================================================
