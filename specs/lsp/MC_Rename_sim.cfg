SPECIFICATION Spec
CONSTANTS
  Names <- NamePool
  MaxLines = 8
  Templates <- AllT
INVARIANT WellScoped
INVARIANT Emit
