------------------------------- MODULE Rename -------------------------------
(***************************************************************************)
(* C30: programs with an explicit binding structure.                       *)
(*                                                                         *)
(* A program is a sequence of lines; a line is a sequence of tokens; every *)
(* token carries the number of the binding it denotes (0: keyword,         *)
(* literal, operator, or text inside a string literal).  The actions       *)
(* append one line from the templates below; names are drawn from a pool   *)
(* of two so that parameters and lambda parameters shadow globals, and the *)
(* same spelling occurs inside string literals on the same line:           *)
(*    def      x = 1                  use      print! x                    *)
(*    fclose   f1 a = a + x           (closure over a global)              *)
(*    fshadow  f2 x = x * 2           (parameter shadows the global)       *)
(*    fdef     f3 a, b := x = a + b   (default argument refers to global)  *)
(*    lam      l4 = [x].map(x -> x + 1).to_list()   (lambda parameter      *)
(*                                     shadows the global in the list)     *)
(*    strlit   print! "x", x          (same spelling in a string literal)  *)
(*    call     r5 = f1 x                                                   *)
(* The state keeps, per binding, nothing but its number: the occurrences   *)
(* of binding b are the tokens tagged b.  WellScoped (TLC): every          *)
(* reference to a global names a global defined on an earlier line, and a  *)
(* token spelled like a parameter inside that parameter's function denotes *)
(* the parameter.  A rename query (binding b, one of its occurrences) must *)
(* be answered by the language server with exactly the occurrences of b.   *)
(***************************************************************************)
EXTENDS Integers, Sequences, FiniteSets, TLC, Json

CONSTANTS Names, MaxLines, Templates

VARIABLES prog,     \* sequence of lines (sequences of [s |-> text, b |-> binding])
          glob,     \* name -> binding number of the global of that name (0: none)
          funs,     \* sequence of [name, b, arity] of defined functions
          nb        \* bindings allocated so far
vars == <<prog, glob, funs, nb>>

T(s, b) == [s |-> s, b |-> b]
K(s) == T(s, 0)
Init == prog = <<>> /\ glob = [n \in Names |-> 0] /\ funs = <<>> /\ nb = 0
N == Len(prog)
Go == N < MaxLines
Line(l) == prog' = Append(prog, l)
Defined == {n \in Names : glob[n] # 0}
FName(k) == "f" \o ToString(k)

Def(n) == /\ Go /\ "def" \in Templates /\ glob[n] = 0
          /\ Line(<<T(n, nb + 1), K(" = "), K(ToString(N + 1))>>)
          /\ glob' = [glob EXCEPT ![n] = nb + 1] /\ nb' = nb + 1 /\ UNCHANGED funs
Use(n) == /\ Go /\ "use" \in Templates /\ n \in Defined
          /\ Line(<<K("print! "), T(n, glob[n])>>) /\ UNCHANGED <<glob, funs, nb>>
StrLit(n) == /\ Go /\ "strlit" \in Templates /\ n \in Defined
             /\ Line(<<K("print! \""), K(n), K(" "), K(n), K("\", "), T(n, glob[n])>>) /\ UNCHANGED <<glob, funs, nb>>
\* print! "U+E9 g", g      -- a non-ASCII character to the left of the reference on the same line
StrLitU(n) == /\ Go /\ "strlitu" \in Templates /\ n \in Defined
              /\ Line(<<K("print! \"cafU+E9 U+3042 "), K(n), K("\", "), T(n, glob[n])>>) /\ UNCHANGED <<glob, funs, nb>>
\* c = [i + 1 | i <- 1..3 | i <= g]      -- a comprehension variable with a guard that refers to a global
Compr(g) == /\ Go /\ "compr" \in Templates /\ g \in Defined
            /\ Line(<<T("c" \o ToString(N + 1), nb + 1), K(" = ["), T("i", nb + 2), K(" + 1 | "), T("i", nb + 2), K(" <- 1..3 | "), T("i", nb + 2),
                      K(" <= "), T(g, glob[g]), K("]")>>)
            /\ nb' = nb + 2 /\ UNCHANGED <<glob, funs>>
\* f a = a + g     (a fresh parameter name "a"; g a global)
FClose(g) == /\ Go /\ "fclose" \in Templates /\ g \in Defined
             /\ Line(<<T(FName(N + 1), nb + 1), K(" "), T("a", nb + 2), K(" = "), T("a", nb + 2), K(" + "), T(g, glob[g])>>)
             /\ funs' = Append(funs, [name |-> FName(N + 1), b |-> nb + 1, arity |-> 1]) /\ nb' = nb + 2 /\ UNCHANGED glob
\* f p = p * 2     (p spelled like a name of the pool: shadows the global if there is one)
FShadow(p) == /\ Go /\ "fshadow" \in Templates
              /\ Line(<<T(FName(N + 1), nb + 1), K(" "), T(p, nb + 2), K(" = "), T(p, nb + 2), K(" * 2")>>)
              /\ funs' = Append(funs, [name |-> FName(N + 1), b |-> nb + 1, arity |-> 1]) /\ nb' = nb + 2 /\ UNCHANGED glob
\* f a, b := g = a + b
FDef(g) == /\ Go /\ "fdef" \in Templates /\ g \in Defined
           /\ Line(<<T(FName(N + 1), nb + 1), K(" "), T("a", nb + 2), K(", "), T("b", nb + 3), K(" := "), T(g, glob[g]), K(" = "),
                     T("a", nb + 2), K(" + "), T("b", nb + 3)>>)
           /\ funs' = Append(funs, [name |-> FName(N + 1), b |-> nb + 1, arity |-> 1]) /\ nb' = nb + 3 /\ UNCHANGED glob
\* l = [g].map(p -> p + 1).to_list()      (the lambda parameter may be spelled like the global)
Lam(p, g) == /\ Go /\ "lam" \in Templates /\ g \in Defined
             /\ Line(<<T("l" \o ToString(N + 1), nb + 1), K(" = ["), T(g, glob[g]), K("].map("), T(p, nb + 2), K(" -> "), T(p, nb + 2), K(" + 1).to_list()")>>)
             /\ nb' = nb + 2 /\ UNCHANGED <<glob, funs>>
\* r = f g ; print! r
Call(i, g) == /\ Go /\ "call" \in Templates /\ i \in 1..Len(funs) /\ g \in Defined
              /\ Line(<<T("r" \o ToString(N + 1), nb + 1), K(" = "), T(funs[i].name, funs[i].b), K(" "), T(g, glob[g])>>)
              /\ nb' = nb + 1 /\ UNCHANGED <<glob, funs>>
UseR == /\ Go /\ "user" \in Templates /\ N >= 1 /\ Len(prog[N]) >= 1 /\ prog[N][1].b # 0
        /\ \E c \in {"r", "l", "c"} : SubSeq(prog[N][1].s, 1, 1) = c
        /\ Line(<<K("print! "), prog[N][1]>>) /\ UNCHANGED <<glob, funs, nb>>

Next == \/ \E n \in Names : Def(n) \/ Use(n) \/ StrLit(n) \/ StrLitU(n) \/ Compr(n) \/ FClose(n) \/ FShadow(n) \/ FDef(n)
        \/ \E p, g \in Names : Lam(p, g)
        \/ \E i \in 1..Len(funs), g \in Names : Call(i, g)
        \/ UseR
Spec == Init /\ [][Next]_vars

\* ---- design-level sanity
\* the line on which binding b is introduced (its first occurrence)
FirstLine(b) == CHOOSE l \in 1..N : (\E i \in 1..Len(prog[l]) : prog[l][i].b = b) /\ \A k \in 1..(l - 1) : \A i \in 1..Len(prog[k]) : prog[k][i].b # b
WellScoped ==
  \A l \in 1..N : \A i \in 1..Len(prog[l]) :
     LET t == prog[l][i] IN
     t.b # 0 =>
       /\ FirstLine(t.b) <= l                                      \* no use before the definition line
       /\ \A l2 \in 1..N : \A j \in 1..Len(prog[l2]) : prog[l2][j].b = t.b => prog[l2][j].s = t.s   \* one spelling per binding

Emit == N >= 2 => PrintT(<<"N", ToJson([prog |-> prog, nb |-> nb])>>)
=============================================================================
