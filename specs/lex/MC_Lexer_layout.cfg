SPECIFICATION Spec
CONSTANTS
  Alphabet <- A3
  Seeds <- NoSeed
  MaxLen = 10
INVARIANT RefOrdered
INVARIANT Emit
