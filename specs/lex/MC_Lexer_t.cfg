SPECIFICATION Spec
CONSTANTS
  Alphabet <- A12
  MaxLen = 6
INVARIANT RefOrdered
INVARIANT Emit
