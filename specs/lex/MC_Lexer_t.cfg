SPECIFICATION Spec
CONSTANTS
  Alphabet <- A12
  Seeds <- NoSeed
  MaxLen = 6
INVARIANT RefOrdered
INVARIANT Emit
