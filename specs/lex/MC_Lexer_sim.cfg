SPECIFICATION Spec
CONSTANTS
  Alphabet <- A30
  MaxLen = 40
INVARIANT Emit
