SPECIFICATION Spec
CONSTANTS
  Alphabet <- A30
  Seeds <- NoSeed
  MaxLen = 40
INVARIANT Emit
