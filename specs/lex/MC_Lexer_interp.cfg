SPECIFICATION Spec
CONSTANTS
  Alphabet <- A7
  Seeds <- InterpSeeds
  MaxLen = 5
INVARIANT RefOrdered
INVARIANT Emit
