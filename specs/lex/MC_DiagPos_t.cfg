SPECIFICATION Spec
CONSTANTS
  MaxPrefix = 3
INVARIANT Emit
