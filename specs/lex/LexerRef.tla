------------------------------ MODULE LexerRef ------------------------------
(***************************************************************************)
(* C08: the lexer is total and reports faithful token positions.           *)
(*                                                                         *)
(* A character-level reference tokenizer.  The input is not a constant:    *)
(* every step consumes one character chosen from the alphabet, so TLC      *)
(* explores the tokenizer's state graph over *all* inputs up to MaxLen at  *)
(* once; every reachable state is one input together with the tokens the   *)
(* reference assigns to it.                                                *)
(*                                                                         *)
(* Position of a token (module Positions, inlined here): line = 1 + number *)
(* of line feeds before its first character, column = characters since the *)
(* last line feed.  Only "core" tokens are positioned: identifiers,        *)
(* numbers, string literals, `+`, `(`, `)`.  Layout tokens (Newline,       *)
(* Indent, Dedent, EOF) are judged by the stream-shape rules in the        *)
(* harness.                                                                *)
(*                                                                         *)
(* outcome: "ok" (the reference tokenizes the whole input), "err" (an      *)
(* unterminated string or an invalid escape: the lexer must report an      *)
(* error), "unknown" (a construct the reference does not model: a          *)
(* backslash outside a string, a triple quote).                            *)
(***************************************************************************)
EXTENDS Integers, Sequences, FiniteSets, TLC, Json

CONSTANTS Alphabet, MaxLen,
          Seeds      \* set of input prefixes every explored input starts with (<<>> for none); MaxLen counts the characters after the seed

Letters == {"a", "n", "e"}         \* "e" stands for a 2-byte letter
Digits  == {"1"}
\* character classes: "s" space, "l" line feed, "q" double quote, "b" backslash,
\* "p" plus, "o" open paren, "c" close paren, "h" hash

VARIABLES input,      \* characters consumed so far
          line, col,  \* position of the next character
          mode,       \* "normal" | "id" | "num" | "str" | "esc" | "comment"
          tline, tcol,\* where the pending token began
          toks,       \* finished core tokens: <<kind, line, col, length in source chars>>
          outcome,
          quotes,     \* number of directly preceding double quotes (to spot triple quotes)
          seed,       \* the prefix chosen for this behaviour
          depth       \* stack of string-interpolation contexts: what to resume after `}`
vars == <<input, line, col, mode, tline, tcol, toks, outcome, quotes, seed, depth>>

Init == /\ input = <<>> /\ line = 1 /\ col = 0 /\ mode = "normal"
        /\ tline = 0 /\ tcol = 0 /\ toks = <<>> /\ outcome = "ok" /\ quotes = 0
        /\ seed \in Seeds /\ depth = 0

Tok(k, len) == <<k, tline, tcol, len>>
Here(k) == <<k, line, col, 1>>

\* the pending identifier/number ends before the current character
Flush(m) == IF m = "id" THEN Append(toks, Tok("id", col - tcol))
            ELSE IF m = "num" THEN Append(toks, Tok("num", col - tcol))
            ELSE toks

Advance(c) == IF c = "l" THEN line' = line + 1 /\ col' = 0 ELSE line' = line /\ col' = col + 1

Step(c) ==
  /\ Len(input) < Len(seed) + MaxLen
  /\ (Len(input) < Len(seed) => c = seed[Len(input) + 1])
  /\ UNCHANGED seed
  /\ input' = Append(input, c)
  /\ Advance(c)
  /\ quotes' = IF c = "q" /\ mode \in {"normal", "id", "num", "str"} THEN quotes + 1 ELSE 0
  /\ depth' = IF outcome # "ok" THEN depth
               ELSE IF mode \in {"normal", "id", "num"} /\ c = "K" /\ depth > 0 THEN depth - 1
               ELSE IF mode = "esc" /\ c = "k" THEN depth + 1 ELSE depth
  /\ IF outcome # "ok"
     THEN UNCHANGED <<mode, tline, tcol, toks, outcome>>
     ELSE
     CASE mode \in {"normal", "id", "num"} /\ c = "K" /\ depth > 0 ->
            \* `}` closes an interpolated expression: the string continues; the next piece
            \* (StrInterpMid / StrInterpRight) is positioned at the `}`
            /\ toks' = Flush(mode) /\ mode' = "str" /\ tline' = line /\ tcol' = col
            /\ UNCHANGED outcome
       [] mode \in {"normal", "id", "num"} /\ c \in {"k", "K"} ->
            /\ outcome' = "unknown" /\ UNCHANGED <<mode, tline, tcol, toks>>
       [] mode \in {"normal", "id", "num"} ->
            IF c \in Letters
            THEN IF mode = "id" THEN UNCHANGED <<mode, tline, tcol, toks, outcome>>
                 ELSE /\ toks' = Flush(mode) /\ mode' = "id" /\ tline' = line /\ tcol' = col /\ UNCHANGED outcome
            ELSE IF c \in Digits
            THEN IF mode \in {"id", "num"} THEN UNCHANGED <<mode, tline, tcol, toks, outcome>>
                 ELSE /\ toks' = Flush(mode) /\ mode' = "num" /\ tline' = line /\ tcol' = col /\ UNCHANGED outcome
            ELSE IF c = "q"
            THEN /\ toks' = Flush(mode) /\ mode' = "str" /\ tline' = line /\ tcol' = col /\ UNCHANGED outcome
            ELSE IF c = "h"
            THEN /\ toks' = Flush(mode) /\ mode' = "comment" /\ UNCHANGED <<tline, tcol, outcome>>
            ELSE IF c = "b"
            THEN /\ outcome' = "unknown" /\ UNCHANGED <<mode, tline, tcol, toks>>
            ELSE IF c \in {"p", "o", "c"}
            THEN /\ toks' = Append(Flush(mode), Here(c)) /\ mode' = "normal" /\ UNCHANGED <<tline, tcol, outcome>>
            ELSE \* space or line feed
                 /\ toks' = Flush(mode) /\ mode' = "normal" /\ UNCHANGED <<tline, tcol, outcome>>
       [] mode = "str" ->
            IF c = "q"
            THEN \* closing quote; `""` followed by `"` would start a multi-line string
                 /\ toks' = Append(toks, Tok("str", (col + 1) - tcol)) /\ mode' = "normal"
                 /\ UNCHANGED <<tline, tcol, outcome>>
            ELSE IF c = "b" THEN mode' = "esc" /\ UNCHANGED <<tline, tcol, toks, outcome>>
            ELSE IF c = "l" THEN outcome' = "err" /\ UNCHANGED <<mode, tline, tcol, toks>>
            ELSE UNCHANGED <<mode, tline, tcol, toks, outcome>>
       [] mode = "esc" ->
            IF c \in {"n", "b", "q"} THEN mode' = "str" /\ UNCHANGED <<tline, tcol, toks, outcome>>
            ELSE IF c = "k"
            THEN \* `\{` : the piece so far is a token (StrInterpLeft/Mid) and an expression follows
                 /\ toks' = Append(toks, Tok("str", (col + 1) - tcol)) /\ mode' = "normal"
                 /\ UNCHANGED <<tline, tcol, outcome>>
            ELSE outcome' = "err" /\ UNCHANGED <<mode, tline, tcol, toks>>
       [] mode = "comment" ->
            IF c = "l" THEN mode' = "normal" /\ UNCHANGED <<tline, tcol, toks, outcome>>
            ELSE UNCHANGED <<mode, tline, tcol, toks, outcome>>

Next == \E c \in Alphabet : Step(c)
Spec == Init /\ [][Next]_vars

\* what the reference says about the input consumed so far
HasTriple == \E i \in 1..(Len(input) - 2) : input[i] = "q" /\ input[i + 1] = "q" /\ input[i + 2] = "q"
FinalOutcome == IF HasTriple THEN "unknown"
                ELSE IF outcome # "ok" THEN outcome
                ELSE IF mode \in {"str", "esc"} \/ depth > 0 THEN "err" ELSE "ok"
FinalToks == Flush(mode)

\* sanity of the reference itself: tokens are in source order and inside the input
RefOrdered == \A i \in 1..(Len(FinalToks) - 1) :
                 \/ FinalToks[i][2] < FinalToks[i + 1][2]
                 \/ FinalToks[i][2] = FinalToks[i + 1][2] /\ FinalToks[i][3] + FinalToks[i][4] <= FinalToks[i + 1][3]

Emit == Len(input) > 0 => PrintT(<<"X", ToJson([input |-> input, outcome |-> FinalOutcome, toks |-> FinalToks])>>)
=============================================================================
