------------------------------- MODULE DiagPos -------------------------------
(***************************************************************************)
(* C24: diagnostics point inside the source at the offending construct.    *)
(*                                                                         *)
(* The erroneous construct (an undefined name, or an ill-typed operand) is *)
(* the last argument of a call on line ErrLine; before it, on the same     *)
(* line, come up to MaxPrefix argument expressions drawn from a palette    *)
(* whose members differ in how many *source characters* they occupy        *)
(* versus how long their cooked token text is (escapes, interpolation,     *)
(* multi-byte characters, inline block comments, digit separators).        *)
(* Position of a token (as in LexerRef): column = number of source         *)
(* characters before it on its line.  The state machine appends one        *)
(* palette member per step; the expected location of the error is          *)
(*   line ErrLine, columns [Col, Col + NameLen).                           *)
(***************************************************************************)
EXTENDS Integers, Sequences, FiniteSets, TLC, Json

CONSTANTS MaxPrefix

\* palette: name -> number of source characters of the argument expression (without ", ")
Palette == [plain  |-> 3,    \* "a"      -> 3 chars
            escn   |-> 6,    \* "a\nb"
            esct   |-> 6,    \* "a\tb"
            escq   |-> 6,    \* "a\"b"
            escbs  |-> 6,    \* "a\\b"
            escx   |-> 6,    \* "\x41"
            interp |-> 7,    \* "\{1}x"
            u2     |-> 3,    \* "é"
            u3     |-> 3,    \* "あ"
            u4     |-> 3,    \* "😀"  (one character, two UTF-16 units, four bytes)
            cmt    |-> 6,    \* #[c]#1   (an inline block comment before the literal)
            num    |-> 5,    \* 1_000
            uid    |-> 1]    \* é        (a non-ASCII identifier defined on line 1)
Members == DOMAIN Palette
Heads == [call |-> 7]        \* `print! ` : 7 characters
\* lines before the erroneous one: a definition line, optionally a multi-line string statement
PreKinds == {"none", "mlstr", "mlcomment"}
PreLines == [none |-> 0, mlstr |-> 3, mlcomment |-> 3]
ErrKinds == {"undef", "badoperand"}

VARIABLES prefix, pre, errk, done
vars == <<prefix, pre, errk, done>>
Init == prefix = <<>> /\ pre \in PreKinds /\ errk \in ErrKinds /\ done = FALSE
Add(m) == /\ ~done /\ Len(prefix) < MaxPrefix
          /\ prefix' = Append(prefix, m) /\ UNCHANGED <<pre, errk, done>>
Finish == /\ ~done /\ done' = TRUE /\ UNCHANGED <<prefix, pre, errk>>
Next == (\E m \in Members : Add(m)) \/ Finish
Spec == Init /\ [][Next]_vars

RECURSIVE Width(_)
Width(p) == IF p = <<>> THEN 0 ELSE Palette[Head(p)] + 2 + Width(Tail(p))     \* each followed by ", "
Col == Heads.call + Width(prefix)
ErrLine == 2 + PreLines[pre]       \* line 1 is the definition line `é = 1`
NameLen == IF errk = "undef" THEN 6 ELSE 3      \* `nosuch` / `"s"` in `1 + "s"` (operand at Col + 4)
ExpCol == IF errk = "undef" THEN Col ELSE Col + 4

Emit == done => PrintT(<<"P", ToJson([prefix |-> prefix, pre |-> pre, errk |-> errk,
                                      line |-> ErrLine, col |-> ExpCol, colend |-> ExpCol + NameLen,
                                      exprcol |-> Col])>>)
=============================================================================
