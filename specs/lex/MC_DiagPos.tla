---- MODULE MC_DiagPos ----
EXTENDS DiagPos
====
