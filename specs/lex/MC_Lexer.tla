---- MODULE MC_Lexer ----
EXTENDS LexerRef
A12 == {"a", "n", "e", "1", "s", "l", "q", "b", "p", "o", "c", "h"}
NoSeed == {<<>>}
InterpSeeds == {<<"q", "b", "k", "a", "K">>, <<"q", "a", "b", "k", "1", "K">>}
A3 == {"a", "s", "l"}
A7 == {"a", "n", "s", "q", "b", "p", "K", "k", "1"}
A9 == {"a", "n", "1", "s", "l", "q", "b", "p", "h"}
\* a wide alphabet for random long inputs (the reference marks most of it "unknown"; these runs
\* judge totality, the stream shape and the verbatim rule only):
\* t tab, u bidi override, x astral char, k `{`, K `}`, g `'`, m `!`, d `.`, i `-`, r `*`, w `:`, y `=`, z `_`, v `,`, f `[`, F `]`
A30 == {"a", "n", "e", "1", "s", "l", "q", "b", "p", "o", "c", "h", "t", "u", "x", "k", "K", "g", "m", "d", "i", "r", "w", "y", "z", "v", "f", "F"}
====
