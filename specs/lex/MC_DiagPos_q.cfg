SPECIFICATION Spec
CONSTANTS
  MaxPrefix = 2
INVARIANT Emit
