SPECIFICATION Spec
CONSTANTS
  Alphabet <- A9
  MaxLen = 5
INVARIANT RefOrdered
INVARIANT Emit
