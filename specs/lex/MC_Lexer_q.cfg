SPECIFICATION Spec
CONSTANTS
  Alphabet <- A9
  Seeds <- NoSeed
  MaxLen = 5
INVARIANT RefOrdered
INVARIANT Emit
