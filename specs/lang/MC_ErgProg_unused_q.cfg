SPECIFICATION Spec
CONSTANTS
  IntLits <- IU
  FloatLits <- NoF
  StrLits <- SU
  MaxStmts = 3
  Templates <- UnusedT
  MaxPrints = 2
INVARIANT Emit
