SPECIFICATION Spec
CONSTANTS
  IntLits <- ISmall
  FloatLits <- FQ
  StrLits <- SQ
  MaxStmts = 8
  Templates <- CollT
  PowNat = TRUE
  InjectKinds <- AllK
  Depths <- DAll
INVARIANT IllTyped
INVARIANT Emit
