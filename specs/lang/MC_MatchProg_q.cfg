SPECIFICATION Spec
CONSTANTS
  MaxArms = 3
INVARIANT RuleSound
INVARIANT Emit
