SPECIFICATION Spec
CONSTANTS
  IntLits <- IPairQ
  FloatLits <- NoF
  StrLits <- NoS
  MaxStmts = 3
  Templates <- PairT
  PowNat = TRUE
  InjectKinds <- NoK
  Depths <- D0
CONSTRAINT PairShape
INVARIANT Emit
