SPECIFICATION Spec
CONSTANTS
  IntVals <- IQ
  FloatVals <- FQ
  MaxSteps = 5
  NatDec = FALSE
  UseBin = FALSE
  PowNat = FALSE
INVARIANT NatNonNeg
INVARIANT ClassOfValue
INVARIANT Emit
