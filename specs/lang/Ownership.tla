------------------------------ MODULE Ownership ------------------------------
(***************************************************************************)
(* C23: a moved mutable value cannot be used again.                        *)
(*                                                                         *)
(* A program is a sequence of statements over mutable variables; each      *)
(* action appends one statement.  Moving statements: rebinding             *)
(* (`w = v`), placing in a container (`l = [v]`), passing for a parameter  *)
(* declared with a mutable type (`u = takem v`).  Non-moving uses: passing *)
(* for a reference parameter, for an immutable parameter, use as an        *)
(* operand, bare statement access.                                         *)
(* Layer A: `bad` becomes TRUE exactly when a statement mentions a         *)
(* variable that was moved earlier; the checker must report a MoveError    *)
(* iff bad.                                                                *)
(***************************************************************************)
EXTENDS Integers, Sequences, FiniteSets, TLC, Json

CONSTANTS MaxStmts, MaxVars, Scopes

Names == <<"v1", "v2", "v3", "v4", "v5">>
\* "passmutb": the call is a bare statement (its value is not bound)
Moving == {"rebind", "intolist", "passmut", "passmutb"}
NonMoving == {"passref", "passimm", "passimmb", "operand", "stmt"}

VARIABLES scope, defined, moved, prog, bad
vars == <<scope, defined, moved, prog, bad>>

Init == /\ scope \in Scopes
        /\ defined = 0 /\ moved = {} /\ prog = <<>> /\ bad = FALSE

Def == /\ defined < MaxVars /\ Len(prog) < MaxStmts
       /\ defined' = defined + 1
       /\ prog' = Append(prog, [k |-> "def", dst |-> Names[defined + 1], src |-> ""])
       /\ UNCHANGED <<scope, moved, bad>>

\* a statement that mentions Names[i]; `k` says how
Use(k, i) ==
  /\ i \in 1..defined /\ Len(prog) < MaxStmts
  /\ (k = "rebind" => defined < MaxVars)
  /\ LET src == Names[i] IN
     /\ bad' = (bad \/ src \in moved)
     /\ moved' = IF k \in Moving THEN moved \cup {src} ELSE moved
     /\ defined' = IF k = "rebind" THEN defined + 1 ELSE defined
     /\ prog' = Append(prog, [k |-> k, dst |-> IF k = "rebind" THEN Names[defined + 1] ELSE "", src |-> src])
  /\ UNCHANGED scope

Next == Def \/ \E k \in Moving \cup NonMoving, i \in 1..MaxVars : Use(k, i)
Spec == Init /\ [][Next]_vars

\* design-level sanity: a program without moving statements is never bad
NoMoveNoBad == (\A j \in 1..Len(prog) : prog[j].k \notin Moving) => ~bad

Emit == (Len(prog) > 0 /\ prog[Len(prog)].k # "def") =>
          PrintT(<<"O", ToJson([scope |-> scope, prog |-> prog, bad |-> bad])>>)
=============================================================================
