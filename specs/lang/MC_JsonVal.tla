---- MODULE MC_JsonVal ----
EXTENDS JsonVal
IJ == {"m7", "0", "7", "i31", "i63", "i64"}
FJ == {"1.5", "-2.25", "0.0"}
SJ == {"ab", "q\"t", "b\\s", "{z}", "e'f", "sl/", "uni\\u00e9", "endq\"", "U+1F600"}
====
