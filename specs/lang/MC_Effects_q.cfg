SPECIFICATION Spec
CONSTANTS
  MaxDepth = 3
  TwoEntryLookback = TRUE
INVARIANT Emit
