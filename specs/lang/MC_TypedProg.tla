---- MODULE MC_TypedProg ----
EXTENDS TypedProg
IQ == {"m7", "m2", "m1", "0", "1", "2", "7", "i31", "i63"}
ISmall == {"m2", "0", "2", "7"}
FQ == {<<3, 1>>, <<-9, 2>>}
SQ == {"ab", "x y"}
AllT == {"ilit", "flit", "slit", "bin", "fn", "ann", "cmp", "neg", "meth", "scat", "smul", "slen", "lmk", "lcat", "lget", "lpush", "lmap", "ifg", "lpushi", "opmeth"}
CollT == {"ilit", "slit", "lmk", "lcat", "lget", "lpush", "lmap", "slen", "scat", "smul", "neg", "lpushi", "ifg"}
NumOnly == {"ilit", "bin", "fn", "neg", "meth", "ann"}
AllK == {"opmis", "argty", "arity", "arityf", "undef", "noattr"}
NoK == {}
D0 == {0}
DAll == 0..6
NoF == {}
NoS == {}
PairT == {"ilit", "bin", "fn", "neg", "meth", "ifg", "opmeth"}
IPair == {"m7", "m1", "0", "1", "2", "i31"}
IPairQ == {"m2", "0", "2"}
====
