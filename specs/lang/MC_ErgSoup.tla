---- MODULE MC_ErgSoup ----
EXTENDS ErgSoup
AllK == {"ilit", "slit", "flit", "blit", "none", "bin", "call", "lmk", "lget", "tpat", "rec", "lam", "fn2", "attr", "dict", "print", "loop", "assert", "neg", "mut", "cls", "match", "ifexpr", "erec", "matchd", "matchd2", "recn", "lamd"}
====
