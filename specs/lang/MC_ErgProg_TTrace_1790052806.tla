---- MODULE MC_ErgProg_TTrace_1790052806 ----
EXTENDS Sequences, TLCExt, Toolbox, Naturals, TLC, MC_ErgProg

_expression ==
    LET MC_ErgProg_TEExpression == INSTANCE MC_ErgProg_TEExpression
    IN MC_ErgProg_TEExpression!expression
----

_trace ==
    LET MC_ErgProg_TETrace == INSTANCE MC_ErgProg_TETrace
    IN MC_ErgProg_TETrace!trace
----

_inv ==
    ~(
        TLCGet("level") = Len(_TETrace)
        /\
        env = (<<[t |-> "str", s |-> "q\"t"], [t |-> "int", v |-> [mag |-> <<5808, 5477, 368, 3372, 922>>, neg |-> FALSE]], [t |-> "int", v |-> [mag |-> <<7>>, neg |-> TRUE]], [t |-> "bool", b |-> FALSE], [t |-> "str", s |-> "e'f"], [t |-> "int", v |-> [mag |-> <<>>, neg |-> FALSE]], [t |-> "str", s |-> "q\"t"], [t |-> "str", s |-> "{z}"], [t |-> "int", v |-> [mag |-> <<5808, 5477, 368, 3372, 922>>, neg |-> FALSE]], [t |-> "str", s |-> "x y"], [t |-> "int", v |-> [mag |-> <<3648, 4748, 21>>, neg |-> FALSE]], [t |-> "int", v |-> [mag |-> <<1>>, neg |-> TRUE]], [t |-> "float", m |-> 3, e |-> 1]>>)
        /\
        prog = (<<[s |-> "q\"t", k |-> "slit", op |-> "", a |-> 0, b |-> 0, c |-> 0], [s |-> "i63", k |-> "ilit", op |-> "", a |-> 0, b |-> 0, c |-> 0], [s |-> "m7", k |-> "ilit", op |-> "", a |-> 0, b |-> 0, c |-> 0], [s |-> "", k |-> "cmp", op |-> ">", a |-> 2, b |-> 2, c |-> 0], [s |-> "e'f", k |-> "slit", op |-> "", a |-> 0, b |-> 0, c |-> 0], [s |-> "0", k |-> "ilit", op |-> "", a |-> 0, b |-> 0, c |-> 0], [s |-> "q\"t", k |-> "slit", op |-> "", a |-> 0, b |-> 0, c |-> 0], [s |-> "{z}", k |-> "slit", op |-> "", a |-> 0, b |-> 0, c |-> 0], [s |-> "i63", k |-> "ilit", op |-> "", a |-> 0, b |-> 0, c |-> 0], [s |-> "x y", k |-> "slit", op |-> "", a |-> 0, b |-> 0, c |-> 0], [s |-> "i31", k |-> "ilit", op |-> "", a |-> 0, b |-> 0, c |-> 0], [s |-> "m1", k |-> "ilit", op |-> "", a |-> 0, b |-> 0, c |-> 0], [s |-> "", k |-> "flit", op |-> "", a |-> 3, b |-> 1, c |-> 0]>>)
        /\
        out = (<<>>)
        /\
        status = ("ok")
    )
----

_init ==
    /\ prog = _TETrace[1].prog
    /\ out = _TETrace[1].out
    /\ env = _TETrace[1].env
    /\ status = _TETrace[1].status
----

_next ==
    /\ \E i,j \in DOMAIN _TETrace:
        /\ \/ /\ j = i + 1
              /\ i = TLCGet("level")
        /\ prog  = _TETrace[i].prog
        /\ prog' = _TETrace[j].prog
        /\ out  = _TETrace[i].out
        /\ out' = _TETrace[j].out
        /\ env  = _TETrace[i].env
        /\ env' = _TETrace[j].env
        /\ status  = _TETrace[i].status
        /\ status' = _TETrace[j].status

\* Uncomment the ASSUME below to write the states of the error trace
\* to the given file in Json format. Note that you can pass any tuple
\* to `JsonSerialize`. For example, a sub-sequence of _TETrace.
    \* ASSUME
    \*     LET J == INSTANCE Json
    \*         IN J!JsonSerialize("MC_ErgProg_TTrace_1790052806.json", _TETrace)

=============================================================================

 Note that you can extract this module `MC_ErgProg_TEExpression`
  to a dedicated file to reuse `expression` (the module in the 
  dedicated `MC_ErgProg_TEExpression.tla` file takes precedence 
  over the module `MC_ErgProg_TEExpression` below).

---- MODULE MC_ErgProg_TEExpression ----
EXTENDS Sequences, TLCExt, Toolbox, Naturals, TLC, MC_ErgProg

expression == 
    [
        \* To hide variables of the `MC_ErgProg` spec from the error trace,
        \* remove the variables below.  The trace will be written in the order
        \* of the fields of this record.
        prog |-> prog
        ,out |-> out
        ,env |-> env
        ,status |-> status
        
        \* Put additional constant-, state-, and action-level expressions here:
        \* ,_stateNumber |-> _TEPosition
        \* ,_progUnchanged |-> prog = prog'
        
        \* Format the `prog` variable as Json value.
        \* ,_progJson |->
        \*     LET J == INSTANCE Json
        \*     IN J!ToJson(prog)
        
        \* Lastly, you may build expressions over arbitrary sets of states by
        \* leveraging the _TETrace operator.  For example, this is how to
        \* count the number of times a spec variable changed up to the current
        \* state in the trace.
        \* ,_progModCount |->
        \*     LET F[s \in DOMAIN _TETrace] ==
        \*         IF s = 1 THEN 0
        \*         ELSE IF _TETrace[s].prog # _TETrace[s-1].prog
        \*             THEN 1 + F[s-1] ELSE F[s-1]
        \*     IN F[_TEPosition - 1]
    ]

=============================================================================



Parsing and semantic processing can take forever if the trace below is long.
 In this case, it is advised to uncomment the module below to deserialize the
 trace from a generated binary file.

\*
\*---- MODULE MC_ErgProg_TETrace ----
\*EXTENDS IOUtils, TLC, MC_ErgProg
\*
\*trace == IODeserialize("MC_ErgProg_TTrace_1790052806.bin", TRUE)
\*
\*=============================================================================
\*

---- MODULE MC_ErgProg_TETrace ----
EXTENDS TLC, MC_ErgProg

trace == 
    <<
    ([env |-> <<>>,prog |-> <<>>,out |-> <<>>,status |-> "ok"]),
    ([env |-> <<[t |-> "str", s |-> "q\"t"]>>,prog |-> <<[s |-> "q\"t", k |-> "slit", op |-> "", a |-> 0, b |-> 0, c |-> 0]>>,out |-> <<>>,status |-> "ok"]),
    ([env |-> <<[t |-> "str", s |-> "q\"t"], [t |-> "int", v |-> [mag |-> <<5808, 5477, 368, 3372, 922>>, neg |-> FALSE]]>>,prog |-> <<[s |-> "q\"t", k |-> "slit", op |-> "", a |-> 0, b |-> 0, c |-> 0], [s |-> "i63", k |-> "ilit", op |-> "", a |-> 0, b |-> 0, c |-> 0]>>,out |-> <<>>,status |-> "ok"]),
    ([env |-> <<[t |-> "str", s |-> "q\"t"], [t |-> "int", v |-> [mag |-> <<5808, 5477, 368, 3372, 922>>, neg |-> FALSE]], [t |-> "int", v |-> [mag |-> <<7>>, neg |-> TRUE]]>>,prog |-> <<[s |-> "q\"t", k |-> "slit", op |-> "", a |-> 0, b |-> 0, c |-> 0], [s |-> "i63", k |-> "ilit", op |-> "", a |-> 0, b |-> 0, c |-> 0], [s |-> "m7", k |-> "ilit", op |-> "", a |-> 0, b |-> 0, c |-> 0]>>,out |-> <<>>,status |-> "ok"]),
    ([env |-> <<[t |-> "str", s |-> "q\"t"], [t |-> "int", v |-> [mag |-> <<5808, 5477, 368, 3372, 922>>, neg |-> FALSE]], [t |-> "int", v |-> [mag |-> <<7>>, neg |-> TRUE]], [t |-> "bool", b |-> FALSE]>>,prog |-> <<[s |-> "q\"t", k |-> "slit", op |-> "", a |-> 0, b |-> 0, c |-> 0], [s |-> "i63", k |-> "ilit", op |-> "", a |-> 0, b |-> 0, c |-> 0], [s |-> "m7", k |-> "ilit", op |-> "", a |-> 0, b |-> 0, c |-> 0], [s |-> "", k |-> "cmp", op |-> ">", a |-> 2, b |-> 2, c |-> 0]>>,out |-> <<>>,status |-> "ok"]),
    ([env |-> <<[t |-> "str", s |-> "q\"t"], [t |-> "int", v |-> [mag |-> <<5808, 5477, 368, 3372, 922>>, neg |-> FALSE]], [t |-> "int", v |-> [mag |-> <<7>>, neg |-> TRUE]], [t |-> "bool", b |-> FALSE], [t |-> "str", s |-> "e'f"]>>,prog |-> <<[s |-> "q\"t", k |-> "slit", op |-> "", a |-> 0, b |-> 0, c |-> 0], [s |-> "i63", k |-> "ilit", op |-> "", a |-> 0, b |-> 0, c |-> 0], [s |-> "m7", k |-> "ilit", op |-> "", a |-> 0, b |-> 0, c |-> 0], [s |-> "", k |-> "cmp", op |-> ">", a |-> 2, b |-> 2, c |-> 0], [s |-> "e'f", k |-> "slit", op |-> "", a |-> 0, b |-> 0, c |-> 0]>>,out |-> <<>>,status |-> "ok"]),
    ([env |-> <<[t |-> "str", s |-> "q\"t"], [t |-> "int", v |-> [mag |-> <<5808, 5477, 368, 3372, 922>>, neg |-> FALSE]], [t |-> "int", v |-> [mag |-> <<7>>, neg |-> TRUE]], [t |-> "bool", b |-> FALSE], [t |-> "str", s |-> "e'f"], [t |-> "int", v |-> [mag |-> <<>>, neg |-> FALSE]]>>,prog |-> <<[s |-> "q\"t", k |-> "slit", op |-> "", a |-> 0, b |-> 0, c |-> 0], [s |-> "i63", k |-> "ilit", op |-> "", a |-> 0, b |-> 0, c |-> 0], [s |-> "m7", k |-> "ilit", op |-> "", a |-> 0, b |-> 0, c |-> 0], [s |-> "", k |-> "cmp", op |-> ">", a |-> 2, b |-> 2, c |-> 0], [s |-> "e'f", k |-> "slit", op |-> "", a |-> 0, b |-> 0, c |-> 0], [s |-> "0", k |-> "ilit", op |-> "", a |-> 0, b |-> 0, c |-> 0]>>,out |-> <<>>,status |-> "ok"]),
    ([env |-> <<[t |-> "str", s |-> "q\"t"], [t |-> "int", v |-> [mag |-> <<5808, 5477, 368, 3372, 922>>, neg |-> FALSE]], [t |-> "int", v |-> [mag |-> <<7>>, neg |-> TRUE]], [t |-> "bool", b |-> FALSE], [t |-> "str", s |-> "e'f"], [t |-> "int", v |-> [mag |-> <<>>, neg |-> FALSE]], [t |-> "str", s |-> "q\"t"]>>,prog |-> <<[s |-> "q\"t", k |-> "slit", op |-> "", a |-> 0, b |-> 0, c |-> 0], [s |-> "i63", k |-> "ilit", op |-> "", a |-> 0, b |-> 0, c |-> 0], [s |-> "m7", k |-> "ilit", op |-> "", a |-> 0, b |-> 0, c |-> 0], [s |-> "", k |-> "cmp", op |-> ">", a |-> 2, b |-> 2, c |-> 0], [s |-> "e'f", k |-> "slit", op |-> "", a |-> 0, b |-> 0, c |-> 0], [s |-> "0", k |-> "ilit", op |-> "", a |-> 0, b |-> 0, c |-> 0], [s |-> "q\"t", k |-> "slit", op |-> "", a |-> 0, b |-> 0, c |-> 0]>>,out |-> <<>>,status |-> "ok"]),
    ([env |-> <<[t |-> "str", s |-> "q\"t"], [t |-> "int", v |-> [mag |-> <<5808, 5477, 368, 3372, 922>>, neg |-> FALSE]], [t |-> "int", v |-> [mag |-> <<7>>, neg |-> TRUE]], [t |-> "bool", b |-> FALSE], [t |-> "str", s |-> "e'f"], [t |-> "int", v |-> [mag |-> <<>>, neg |-> FALSE]], [t |-> "str", s |-> "q\"t"], [t |-> "str", s |-> "{z}"]>>,prog |-> <<[s |-> "q\"t", k |-> "slit", op |-> "", a |-> 0, b |-> 0, c |-> 0], [s |-> "i63", k |-> "ilit", op |-> "", a |-> 0, b |-> 0, c |-> 0], [s |-> "m7", k |-> "ilit", op |-> "", a |-> 0, b |-> 0, c |-> 0], [s |-> "", k |-> "cmp", op |-> ">", a |-> 2, b |-> 2, c |-> 0], [s |-> "e'f", k |-> "slit", op |-> "", a |-> 0, b |-> 0, c |-> 0], [s |-> "0", k |-> "ilit", op |-> "", a |-> 0, b |-> 0, c |-> 0], [s |-> "q\"t", k |-> "slit", op |-> "", a |-> 0, b |-> 0, c |-> 0], [s |-> "{z}", k |-> "slit", op |-> "", a |-> 0, b |-> 0, c |-> 0]>>,out |-> <<>>,status |-> "ok"]),
    ([env |-> <<[t |-> "str", s |-> "q\"t"], [t |-> "int", v |-> [mag |-> <<5808, 5477, 368, 3372, 922>>, neg |-> FALSE]], [t |-> "int", v |-> [mag |-> <<7>>, neg |-> TRUE]], [t |-> "bool", b |-> FALSE], [t |-> "str", s |-> "e'f"], [t |-> "int", v |-> [mag |-> <<>>, neg |-> FALSE]], [t |-> "str", s |-> "q\"t"], [t |-> "str", s |-> "{z}"], [t |-> "int", v |-> [mag |-> <<5808, 5477, 368, 3372, 922>>, neg |-> FALSE]]>>,prog |-> <<[s |-> "q\"t", k |-> "slit", op |-> "", a |-> 0, b |-> 0, c |-> 0], [s |-> "i63", k |-> "ilit", op |-> "", a |-> 0, b |-> 0, c |-> 0], [s |-> "m7", k |-> "ilit", op |-> "", a |-> 0, b |-> 0, c |-> 0], [s |-> "", k |-> "cmp", op |-> ">", a |-> 2, b |-> 2, c |-> 0], [s |-> "e'f", k |-> "slit", op |-> "", a |-> 0, b |-> 0, c |-> 0], [s |-> "0", k |-> "ilit", op |-> "", a |-> 0, b |-> 0, c |-> 0], [s |-> "q\"t", k |-> "slit", op |-> "", a |-> 0, b |-> 0, c |-> 0], [s |-> "{z}", k |-> "slit", op |-> "", a |-> 0, b |-> 0, c |-> 0], [s |-> "i63", k |-> "ilit", op |-> "", a |-> 0, b |-> 0, c |-> 0]>>,out |-> <<>>,status |-> "ok"]),
    ([env |-> <<[t |-> "str", s |-> "q\"t"], [t |-> "int", v |-> [mag |-> <<5808, 5477, 368, 3372, 922>>, neg |-> FALSE]], [t |-> "int", v |-> [mag |-> <<7>>, neg |-> TRUE]], [t |-> "bool", b |-> FALSE], [t |-> "str", s |-> "e'f"], [t |-> "int", v |-> [mag |-> <<>>, neg |-> FALSE]], [t |-> "str", s |-> "q\"t"], [t |-> "str", s |-> "{z}"], [t |-> "int", v |-> [mag |-> <<5808, 5477, 368, 3372, 922>>, neg |-> FALSE]], [t |-> "str", s |-> "x y"]>>,prog |-> <<[s |-> "q\"t", k |-> "slit", op |-> "", a |-> 0, b |-> 0, c |-> 0], [s |-> "i63", k |-> "ilit", op |-> "", a |-> 0, b |-> 0, c |-> 0], [s |-> "m7", k |-> "ilit", op |-> "", a |-> 0, b |-> 0, c |-> 0], [s |-> "", k |-> "cmp", op |-> ">", a |-> 2, b |-> 2, c |-> 0], [s |-> "e'f", k |-> "slit", op |-> "", a |-> 0, b |-> 0, c |-> 0], [s |-> "0", k |-> "ilit", op |-> "", a |-> 0, b |-> 0, c |-> 0], [s |-> "q\"t", k |-> "slit", op |-> "", a |-> 0, b |-> 0, c |-> 0], [s |-> "{z}", k |-> "slit", op |-> "", a |-> 0, b |-> 0, c |-> 0], [s |-> "i63", k |-> "ilit", op |-> "", a |-> 0, b |-> 0, c |-> 0], [s |-> "x y", k |-> "slit", op |-> "", a |-> 0, b |-> 0, c |-> 0]>>,out |-> <<>>,status |-> "ok"]),
    ([env |-> <<[t |-> "str", s |-> "q\"t"], [t |-> "int", v |-> [mag |-> <<5808, 5477, 368, 3372, 922>>, neg |-> FALSE]], [t |-> "int", v |-> [mag |-> <<7>>, neg |-> TRUE]], [t |-> "bool", b |-> FALSE], [t |-> "str", s |-> "e'f"], [t |-> "int", v |-> [mag |-> <<>>, neg |-> FALSE]], [t |-> "str", s |-> "q\"t"], [t |-> "str", s |-> "{z}"], [t |-> "int", v |-> [mag |-> <<5808, 5477, 368, 3372, 922>>, neg |-> FALSE]], [t |-> "str", s |-> "x y"], [t |-> "int", v |-> [mag |-> <<3648, 4748, 21>>, neg |-> FALSE]]>>,prog |-> <<[s |-> "q\"t", k |-> "slit", op |-> "", a |-> 0, b |-> 0, c |-> 0], [s |-> "i63", k |-> "ilit", op |-> "", a |-> 0, b |-> 0, c |-> 0], [s |-> "m7", k |-> "ilit", op |-> "", a |-> 0, b |-> 0, c |-> 0], [s |-> "", k |-> "cmp", op |-> ">", a |-> 2, b |-> 2, c |-> 0], [s |-> "e'f", k |-> "slit", op |-> "", a |-> 0, b |-> 0, c |-> 0], [s |-> "0", k |-> "ilit", op |-> "", a |-> 0, b |-> 0, c |-> 0], [s |-> "q\"t", k |-> "slit", op |-> "", a |-> 0, b |-> 0, c |-> 0], [s |-> "{z}", k |-> "slit", op |-> "", a |-> 0, b |-> 0, c |-> 0], [s |-> "i63", k |-> "ilit", op |-> "", a |-> 0, b |-> 0, c |-> 0], [s |-> "x y", k |-> "slit", op |-> "", a |-> 0, b |-> 0, c |-> 0], [s |-> "i31", k |-> "ilit", op |-> "", a |-> 0, b |-> 0, c |-> 0]>>,out |-> <<>>,status |-> "ok"]),
    ([env |-> <<[t |-> "str", s |-> "q\"t"], [t |-> "int", v |-> [mag |-> <<5808, 5477, 368, 3372, 922>>, neg |-> FALSE]], [t |-> "int", v |-> [mag |-> <<7>>, neg |-> TRUE]], [t |-> "bool", b |-> FALSE], [t |-> "str", s |-> "e'f"], [t |-> "int", v |-> [mag |-> <<>>, neg |-> FALSE]], [t |-> "str", s |-> "q\"t"], [t |-> "str", s |-> "{z}"], [t |-> "int", v |-> [mag |-> <<5808, 5477, 368, 3372, 922>>, neg |-> FALSE]], [t |-> "str", s |-> "x y"], [t |-> "int", v |-> [mag |-> <<3648, 4748, 21>>, neg |-> FALSE]], [t |-> "int", v |-> [mag |-> <<1>>, neg |-> TRUE]]>>,prog |-> <<[s |-> "q\"t", k |-> "slit", op |-> "", a |-> 0, b |-> 0, c |-> 0], [s |-> "i63", k |-> "ilit", op |-> "", a |-> 0, b |-> 0, c |-> 0], [s |-> "m7", k |-> "ilit", op |-> "", a |-> 0, b |-> 0, c |-> 0], [s |-> "", k |-> "cmp", op |-> ">", a |-> 2, b |-> 2, c |-> 0], [s |-> "e'f", k |-> "slit", op |-> "", a |-> 0, b |-> 0, c |-> 0], [s |-> "0", k |-> "ilit", op |-> "", a |-> 0, b |-> 0, c |-> 0], [s |-> "q\"t", k |-> "slit", op |-> "", a |-> 0, b |-> 0, c |-> 0], [s |-> "{z}", k |-> "slit", op |-> "", a |-> 0, b |-> 0, c |-> 0], [s |-> "i63", k |-> "ilit", op |-> "", a |-> 0, b |-> 0, c |-> 0], [s |-> "x y", k |-> "slit", op |-> "", a |-> 0, b |-> 0, c |-> 0], [s |-> "i31", k |-> "ilit", op |-> "", a |-> 0, b |-> 0, c |-> 0], [s |-> "m1", k |-> "ilit", op |-> "", a |-> 0, b |-> 0, c |-> 0]>>,out |-> <<>>,status |-> "ok"]),
    ([env |-> <<[t |-> "str", s |-> "q\"t"], [t |-> "int", v |-> [mag |-> <<5808, 5477, 368, 3372, 922>>, neg |-> FALSE]], [t |-> "int", v |-> [mag |-> <<7>>, neg |-> TRUE]], [t |-> "bool", b |-> FALSE], [t |-> "str", s |-> "e'f"], [t |-> "int", v |-> [mag |-> <<>>, neg |-> FALSE]], [t |-> "str", s |-> "q\"t"], [t |-> "str", s |-> "{z}"], [t |-> "int", v |-> [mag |-> <<5808, 5477, 368, 3372, 922>>, neg |-> FALSE]], [t |-> "str", s |-> "x y"], [t |-> "int", v |-> [mag |-> <<3648, 4748, 21>>, neg |-> FALSE]], [t |-> "int", v |-> [mag |-> <<1>>, neg |-> TRUE]], [t |-> "float", m |-> 3, e |-> 1]>>,prog |-> <<[s |-> "q\"t", k |-> "slit", op |-> "", a |-> 0, b |-> 0, c |-> 0], [s |-> "i63", k |-> "ilit", op |-> "", a |-> 0, b |-> 0, c |-> 0], [s |-> "m7", k |-> "ilit", op |-> "", a |-> 0, b |-> 0, c |-> 0], [s |-> "", k |-> "cmp", op |-> ">", a |-> 2, b |-> 2, c |-> 0], [s |-> "e'f", k |-> "slit", op |-> "", a |-> 0, b |-> 0, c |-> 0], [s |-> "0", k |-> "ilit", op |-> "", a |-> 0, b |-> 0, c |-> 0], [s |-> "q\"t", k |-> "slit", op |-> "", a |-> 0, b |-> 0, c |-> 0], [s |-> "{z}", k |-> "slit", op |-> "", a |-> 0, b |-> 0, c |-> 0], [s |-> "i63", k |-> "ilit", op |-> "", a |-> 0, b |-> 0, c |-> 0], [s |-> "x y", k |-> "slit", op |-> "", a |-> 0, b |-> 0, c |-> 0], [s |-> "i31", k |-> "ilit", op |-> "", a |-> 0, b |-> 0, c |-> 0], [s |-> "m1", k |-> "ilit", op |-> "", a |-> 0, b |-> 0, c |-> 0], [s |-> "", k |-> "flit", op |-> "", a |-> 3, b |-> 1, c |-> 0]>>,out |-> <<>>,status |-> "ok"])
    >>
----


=============================================================================

---- CONFIG MC_ErgProg_TTrace_1790052806 ----
CONSTANTS
    IntLits <- IS
    FloatLits <- FQ
    StrLits <- SQ
    MaxStmts = 14
    Templates <- AllT
    MaxPrints = 5

INVARIANT
    _inv

CHECK_DEADLOCK
    \* CHECK_DEADLOCK off because of PROPERTY or INVARIANT above.
    FALSE

INIT
    _init

NEXT
    _next

CONSTANT
    _TETrace <- _trace

ALIAS
    _expression
=============================================================================
\* Generated on Tue Sep 22 04:53:27 UTC 2026