SPECIFICATION Spec
CONSTANTS
  IntVals <- IW
  FloatVals <- FW
  MaxSteps = 1
  NatDec = FALSE
  UseBin = TRUE
  PowNat = FALSE
INVARIANT NatNonNeg
INVARIANT ClassOfValue
INVARIANT Emit
