SPECIFICATION Spec
CONSTANTS
  IntLits <- IPairQ
  FloatLits <- NoF
  StrLits <- NoS
  MaxStmts = 3
  Templates <- NumOnly
  PowNat = FALSE
  InjectKinds <- NoK
  Depths <- D0
INVARIANT TypeSound
