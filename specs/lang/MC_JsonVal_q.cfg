SPECIFICATION Spec
CONSTANTS
  IntLits <- IJ
  FloatLits <- FJ
  StrLits <- SJ
  Depth = 1
INVARIANT Emit
