---- MODULE MC_MatchProg ----
EXTENDS MatchProg
====
