SPECIFICATION Spec
CONSTANTS
  MaxArms = 4
INVARIANT RuleSound
INVARIANT Emit
