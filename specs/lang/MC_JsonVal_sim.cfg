SPECIFICATION Spec
CONSTANTS
  IntLits <- IJ
  FloatLits <- FJ
  StrLits <- SJ
  Depth = 3
INVARIANT Emit
