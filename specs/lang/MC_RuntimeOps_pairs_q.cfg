SPECIFICATION Spec
CONSTANTS
  IntVals <- IQ
  FloatVals <- FQ
  MaxSteps = 1
  NatDec = FALSE
  UseBin = TRUE
  PowNat = FALSE
INVARIANT NatNonNeg
INVARIANT ClassOfValue
INVARIANT Emit
