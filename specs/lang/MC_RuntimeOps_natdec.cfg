SPECIFICATION Spec
CONSTANTS
  IntVals <- IQ
  FloatVals <- FQ
  MaxSteps = 3
  NatDec = TRUE
  UseBin = TRUE
  PowNat = FALSE
VIEW View
INVARIANT NatNonNeg
INVARIANT ClassOfValue
