------------------------------ MODULE ConstFold ------------------------------
(***************************************************************************)
(* C04: compile-time evaluation agrees with run time and never crashes.    *)
(*                                                                         *)
(* Val(op, a, b) is the value of the constant expression `a op b` under    *)
(* Python semantics: arbitrary-precision integers (module BigInt), floor   *)
(* division and modulo with the sign of the divisor, `/` always a float,   *)
(* booleans as the integers 0/1 in arithmetic, floats restricted to the    *)
(* dyadic rationals m/2^e on which IEEE double arithmetic is exact.        *)
(* Values are tagged records:                                              *)
(*   [t |-> "int", v |-> BigInt]  [t |-> "bool", b |-> BOOLEAN]            *)
(*   [t |-> "float", m |-> Int, e |-> Nat]   (m / 2^e, m odd or e = 0)     *)
(*   [t |-> "zde"]  ZeroDivisionError        [t |-> "skip"]  outside the   *)
(*   modelled subset (the case is then judged by the other voters only)    *)
(* The state machine picks the operator and the two literal operands; each *)
(* reachable final state is one test case, emitted with the expression     *)
(* text and the printed form of its value.                                 *)
(***************************************************************************)
EXTENDS Integers, Sequences, FiniteSets, TLC, Json, PyVal

CONSTANTS IntLits,     \* set of strings naming integer operands, see IntOf
          FloatLits,   \* set of <<m, e>>
          UseBools

Operands == {VInt(IntOf(s)) : s \in IntLits}
              \cup {NormF(f[1], f[2]) : f \in FloatLits}
              \cup (IF UseBools THEN {VBool(TRUE), VBool(FALSE)} ELSE {})

VARIABLES op, a, b
vars == <<op, a, b>>
UnaryOps == {"neg", "not"}
\* for a unary operator the second operand is ignored (fixed to the first operand)
Init == \/ op \in ArithOps \cup CmpOps \cup BoolOps /\ a \in Operands /\ b \in Operands
        \/ op \in UnaryOps /\ a \in Operands /\ b = a
Next == UNCHANGED vars
Spec == Init /\ [][Next]_vars

\* design-level sanity of the reference arithmetic itself
DivModLaw == (op \in {"//"} /\ IsIntLike(a) /\ IsIntLike(b) /\ Val("//", a, b).t = "int" /\ Val("%", a, b).t = "int")
               => Cmp(Add(Mul(Val("//", a, b).v, AsInt(b)), Val("%", a, b).v), AsInt(a)) = 0

Value == IF op \in UnaryOps THEN UVal(op, a) ELSE Val(op, a, b)
Emit == PrintT(<<"K", ToJson([op |-> op, l |-> Lit(a), r |-> Lit(b), lt |-> a.t, rt |-> b.t,
                              val |-> Show(Value), vt |-> Value.t])>>)
=============================================================================
