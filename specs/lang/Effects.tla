------------------------------- MODULE Effects -------------------------------
(***************************************************************************)
(* C22: functions cannot perform side effects.                             *)
(*                                                                         *)
(* The checker walks the program keeping a stack of block kinds.  The      *)
(* state machine below builds such nesting paths with one action per       *)
(* source construct that opens a block (Enter), then performs one effect   *)
(* in the innermost block (Effect).                                        *)
(*                                                                         *)
(* Layer A (RefAllowed): an effect is allowed iff the nearest enclosing    *)
(* subroutine block is a procedure, or there is no enclosing subroutine    *)
(* (module top level, possibly through instant blocks).                    *)
(* Layer B (ImplAllowed): transcription of                                 *)
(* SideEffectChecker::in_context_effects_allowed, which inspects only the  *)
(* top two stack entries.                                                  *)
(***************************************************************************)
EXTENDS Integers, Sequences, FiniteSets, TLC, Json

CONSTANTS MaxDepth,            \* number of wrappers
          TwoEntryLookback     \* TRUE = the code as it is (looks at the top two entries only)

\* source constructs and the block kinds they push (outermost first)
Wrappers == {"fdef", "pdef", "var", "doblk", "flam", "plam"}
Blocks(w) == CASE w = "fdef"  -> <<"Func">>            \* f a = ...
               [] w = "pdef"  -> <<"Proc">>            \* p! a = ...
               [] w = "var"   -> <<"Instant">>         \* v = (block)
               [] w = "doblk" -> <<"Func">>            \* if True, do: (block)   -- a function lambda
               [] w = "flam"  -> <<"Instant", "Func">> \* l = () -> (block)
               [] w = "plam"  -> <<"Instant", "Proc">> \* l! = () => (block)
Effects == {"callproc", "procmethod", "readmut"}
\* innermost placement of the effect: directly as a statement, or inside a record field
Places == {"stmt", "record"}
PlaceBlocks(pl) == IF pl = "record" THEN <<"Instant", "Instant", "Instant">> ELSE <<>>   \* r = {a = e}

VARIABLES path,     \* sequence of wrappers entered so far
          done      \* [eff, place] once the effect has been placed, else "no"
vars == <<path, done>>
No == [eff |-> "none", place |-> "none"]
Init == path = <<>> /\ done = No
Enter(w) == /\ done = No /\ Len(path) < MaxDepth
            /\ path' = Append(path, w) /\ UNCHANGED done
Effect(e, pl) == /\ done = No /\ done' = [eff |-> e, place |-> pl] /\ UNCHANGED path
Next == \/ \E w \in Wrappers : Enter(w)
        \/ \E e \in Effects, pl \in Places : Effect(e, pl)
Spec == Init /\ [][Next]_vars

RECURSIVE Flatten(_)
Flatten(ws) == IF ws = <<>> THEN <<>> ELSE Blocks(Head(ws)) \o Flatten(Tail(ws))
Stack(ws, pl) == <<"Module">> \o Flatten(ws) \o PlaceBlocks(pl)

-----------------------------------------------------------------------------
Subroutine(k) == k \in {"Func", "Proc"}
RefAllowed(st) ==
  LET I == {i \in 1..Len(st) : Subroutine(st[i])} IN
  IF I = {} THEN TRUE
  ELSE st[CHOOSE i \in I : \A j \in I : j <= i] = "Proc"

ImplAllowed(st) ==
  IF Len(st) = 1 THEN TRUE
  ELSE LET prev == st[Len(st) - 1] top == st[Len(st)] IN
       IF TwoEntryLookback
       THEN CASE top = "Func" -> FALSE
              [] top = "Proc" -> TRUE
              [] top = "Instant" /\ prev \in {"Proc", "Module", "Instant"} -> TRUE
              [] OTHER -> FALSE
       ELSE RefAllowed(st)

\* design-level refinement obligation
ImplMatchesRef == done # No => ImplAllowed(Stack(path, done.place)) = RefAllowed(Stack(path, done.place))

Emit == done # No =>
  PrintT(<<"F", ToJson([path |-> path, eff |-> done.eff, place |-> done.place,
                        stack |-> Stack(path, done.place),
                        allowed |-> RefAllowed(Stack(path, done.place)),
                        impl |-> ImplAllowed(Stack(path, done.place))])>>)
=============================================================================
