SPECIFICATION Spec
CONSTANTS
  IntLits <- IS
  FloatLits <- FQ
  StrLits <- SQ
  MaxStmts = 14
  Templates <- OptT
  MaxPrints = 5
INVARIANT Emit
