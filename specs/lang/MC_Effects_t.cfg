SPECIFICATION Spec
CONSTANTS
  MaxDepth = 4
  TwoEntryLookback = TRUE
INVARIANT Emit
