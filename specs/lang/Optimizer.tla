------------------------------ MODULE Optimizer ------------------------------
(***************************************************************************)
(* C12: optimisation never changes observable behaviour.                   *)
(*                                                                         *)
(* A program is a sequence of top-level definitions; evaluating the        *)
(* right-hand side of definition i produces a sequence of observable       *)
(* events (lines printed, or a final "raise") or none.  The optimiser's    *)
(* only transformation (optimize.rs) replaces an unreferenced private      *)
(* definition by nothing.  Trace(p) is the concatenation of the events of  *)
(* the definitions still present, cut at the first raise.  The invariant   *)
(* says the trace of the optimised program equals the trace of the         *)
(* original one, whatever subset of *eligible* definitions was removed.    *)
(*                                                                         *)
(* Guard = "sound": eligible iff unreferenced, private, and its            *)
(* right-hand side can neither print nor raise.                            *)
(* Guard = "result-type" (the code before the fix): the purity test looked *)
(* at the type of the call's result, so `u = print! "x"` (result None) and *)
(* raising expressions (`1 // 0`, `l[5]`, `f(x)`) counted as pure.         *)
(***************************************************************************)
EXTENDS Integers, Sequences, FiniteSets, TLC

CONSTANTS NDefs, Guard

RhsKinds == {"total", "print", "raise", "printraise"}      \* what evaluating the right-hand side does
Events(k) == CASE k = "total" -> <<>> [] k = "print" -> <<"line">> [] k = "raise" -> <<"raise">>
               [] k = "printraise" -> <<"line", "raise">>

VARIABLES defs,      \* [kind, public, referenced] per definition
          removed    \* set of indices the optimiser removed
vars == <<defs, removed>>

Init == /\ defs \in [1..NDefs -> [kind : RhsKinds, public : BOOLEAN, referenced : BOOLEAN]]
        /\ removed = {}

Eligible(i) == /\ ~defs[i].public /\ ~defs[i].referenced
               /\ IF Guard = "sound" THEN defs[i].kind = "total" ELSE TRUE
Eliminate(i) == /\ i \notin removed /\ Eligible(i) /\ removed' = removed \cup {i} /\ UNCHANGED defs
Next == \E i \in 1..NDefs : Eliminate(i)
Spec == Init /\ [][Next]_vars

RECURSIVE TraceFrom(_, _)
TraceFrom(i, rem) ==
  IF i > NDefs THEN <<>>
  ELSE IF i \in rem THEN TraceFrom(i + 1, rem)
  ELSE LET ev == Events(defs[i].kind) IN
       IF ev # <<>> /\ ev[Len(ev)] = "raise" THEN ev ELSE ev \o TraceFrom(i + 1, rem)

BehaviourPreserved == TraceFrom(1, removed) = TraceFrom(1, {})
=============================================================================
