SPECIFICATION Spec
CONSTANTS
  IntVals <- IQ
  FloatVals <- FQ
  MaxSteps = 2
  NatDec = FALSE
  UseBin = TRUE
  PowNat = TRUE
VIEW View
INVARIANT NatNonNeg
INVARIANT ClassOfValue
