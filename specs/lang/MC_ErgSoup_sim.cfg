SPECIFICATION Spec
CONSTANTS
  MaxStmts = 10
  Kinds <- AllK
INVARIANT Emit
