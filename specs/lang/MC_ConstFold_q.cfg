SPECIFICATION Spec
CONSTANTS
  IntLits <- IQ
  FloatLits <- FQ
  UseBools = TRUE
INVARIANT DivModLaw
INVARIANT Emit
