SPECIFICATION Spec
CONSTANTS
  IntVals <- IQ
  FloatVals <- FQ
  MaxSteps = 4
  NatDec = FALSE
  UseBin = TRUE
  PowNat = FALSE
INVARIANT NatNonNeg
INVARIANT ClassOfValue
INVARIANT Emit
