---- MODULE MC_Ownership ----
EXTENDS Ownership
AllScopes == {"module", "func", "proc"}
ModOnly == {"module"}
====
