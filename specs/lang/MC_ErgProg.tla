---- MODULE MC_ErgProg ----
EXTENDS ErgProg
IQ == {"m7", "m1", "0", "1", "2", "7", "i31m", "i31", "i63m", "i63", "i64"}
IS == {"m7", "m1", "0", "1", "2", "7", "i31", "i63"}
FQ == {<<3, 1>>, <<-9, 2>>}
SQ == {"ab", "x y", "q\"t", "b\\s", "{z}", "e'f", "U+E9", "aU+1F600b"}
GridT == {"ilit", "bin", "cmp", "print"}
AllT == {"ilit", "flit", "slit", "bin", "fbin", "cmp", "scat", "interp", "print", "ifp", "call", "loop", "wloop", "wloople",
         "lmk", "lcat", "llen", "lget", "assert", "tpat"}
OptT == AllT \cup {"uprint", "ublock", "ublockp"}
UnusedT == {"ilit", "bin", "cmp", "print", "uprint", "ublock", "ublockp", "call", "lmk", "lget"}
IG == {"m7", "0", "2", "i31", "i63"}
IU == {"0", "2"}
SU == {"ab"}
UnitT == {"ilit", "call", "loop", "wloop", "wloople", "lmk", "lcat", "llen", "lget", "tpat", "cmp", "ifp", "assert", "print"}
IUnit == {"0", "2"}
NoF == {}
NoS == {}
====
