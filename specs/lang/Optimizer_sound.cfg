SPECIFICATION Spec
CONSTANTS
  NDefs = 3
  Guard = "sound"
INVARIANT BehaviourPreserved
