------------------------------- MODULE ErgProg -------------------------------
(***************************************************************************)
(* Reference semantics of the checked language fragment (C01, C02, C12,    *)
(* C13, C17): an abstract machine whose state is the program text so far   *)
(* (a sequence of statements), the environment those statements produce    *)
(* and the lines printed.  Each action appends one statement drawn from    *)
(* the fragment's templates and updates environment and output by the      *)
(* Python-semantics reading of that statement (module PyVal).  Every       *)
(* reachable state is therefore a complete program together with the       *)
(* output and outcome it must have; TLC enumerates short programs          *)
(* exhaustively and samples long ones with -simulate.                      *)
(*                                                                         *)
(* Statement n defines variable v<n> (if it defines one).  Templates:      *)
(*   ilit   v = <int literal>              flit  v = <float literal>       *)
(*   bin    v = a op b   (+ - * // %)      cmp   v = a op b (== != < ...)  *)
(*   slit   v = "<text>"                   scat  v = a + b  (strings)      *)
(*   interp v = "\{a}<text>"               print print! a                  *)
(*   ifp    if! c: do!: print! a / do!: print! b                           *)
(*   call   v = f(a)  f in double, inc, addd, addd2, fact (prelude)        *)
(*   loop   v = sum of i in 0..<a  (for! with a mutable accumulator)       *)
(*   wloop  v = number of iterations of while! counting up to a            *)
(*   lmk    v = [a, b]    lcat  v = l + [a]    llen v = len(l)             *)
(*   lget   v = l[<index literal>]         assert assert c                 *)
(*   tpat   (v, w) = (a, b)  -- tuple pattern; defines v<n> only (= a)     *)
(*   uprint u = print! "<text>"  -- unused definition with a side effect     *)
(* A raising statement (ZeroDivisionError, IndexError, AssertionError)     *)
(* ends the program.                                                       *)
(***************************************************************************)
EXTENDS Integers, Sequences, FiniteSets, TLC, Json, PyVal

CONSTANTS IntLits, FloatLits, StrLits, MaxStmts, Templates, MaxPrints

VARIABLES prog,    \* sequence of statements [k, op, a, b, c, s]
          env,     \* sequence (one entry per statement) of values; [t |-> "none"] if the statement defines nothing
          out,     \* printed lines
          status   \* "ok" | "ZeroDivisionError" | "IndexError" | "AssertionError"
vars == <<prog, env, out, status>>

None == [t |-> "none"]
VStr(s) == [t |-> "str", s |-> s]
VList(xs) == [t |-> "list", xs |-> xs]
Stmt(k, op, a, b, c, s) == [k |-> k, op |-> op, a |-> a, b |-> b, c |-> c, s |-> s]

Init == prog = <<>> /\ env = <<>> /\ out = <<>> /\ status = "ok"

N == Len(prog)
Idx(t) == {i \in 1..N : env[i].t = t}
IntLike == Idx("int")
Small(i) == SmallInt(env[i].v)
NPrints == Cardinality({i \in 1..N : prog[i].k \in {"print", "ifp", "uprint", "ublockp"}})

RECURSIVE Join(_, _)
Join(xs, sep) == IF xs = <<>> THEN "" ELSE IF Len(xs) = 1 THEN xs[1] ELSE xs[1] \o sep \o Join(Tail(xs), sep)
ShowV(x) == IF x.t = "str" THEN x.s
            ELSE IF x.t = "list" THEN "[" \o Join([i \in 1..Len(x.xs) |-> Show(x.xs[i])], ", ") \o "]"
            ELSE Show(x)

Push(st, v) == /\ prog' = Append(prog, st) /\ env' = Append(env, v)
Go == status = "ok" /\ N < MaxStmts

ILit(l) == /\ Go /\ "ilit" \in Templates
           /\ Push(Stmt("ilit", "", 0, 0, 0, l), VInt(IntOf(l))) /\ UNCHANGED <<out, status>>
FLit(f) == /\ Go /\ "flit" \in Templates
           /\ Push(Stmt("flit", "", f[1], f[2], 0, ""), NormF(f[1], f[2])) /\ UNCHANGED <<out, status>>
SLit(s) == /\ Go /\ "slit" \in Templates
           /\ Push(Stmt("slit", "", 0, 0, 0, s), VStr(s)) /\ UNCHANGED <<out, status>>

Bin(op, a, b) ==
  /\ Go /\ "bin" \in Templates /\ a \in IntLike /\ b \in IntLike
  /\ LET v == Val(op, env[a], env[b]) IN
     /\ v.t # "skip"
     /\ IF v.t = "zde"
        THEN /\ Push(Stmt("bin", op, a, b, 0, ""), None) /\ status' = "ZeroDivisionError"
        ELSE /\ Push(Stmt("bin", op, a, b, 0, ""), v) /\ UNCHANGED status
  /\ UNCHANGED out
FBin(op, a, b) ==     \* float arithmetic
  /\ Go /\ "fbin" \in Templates /\ a \in Idx("float") /\ b \in Idx("float") \cup {i \in IntLike : Small(i)}
  /\ LET v == Val(op, env[a], env[b]) IN
     /\ v.t = "float" /\ (v.m < 100000 /\ v.m > -100000)
     /\ Push(Stmt("bin", op, a, b, 0, ""), v)
  /\ UNCHANGED <<out, status>>
Cmpr(op, a, b) ==
  /\ Go /\ "cmp" \in Templates /\ a \in IntLike /\ b \in IntLike
  /\ Push(Stmt("cmp", op, a, b, 0, ""), Val(op, env[a], env[b])) /\ UNCHANGED <<out, status>>
SCat(a, b) ==
  /\ Go /\ "scat" \in Templates /\ a \in Idx("str") /\ b \in Idx("str") /\ Len(env[a].s) + Len(env[b].s) <= 12
  /\ Push(Stmt("scat", "+", a, b, 0, ""), VStr(env[a].s \o env[b].s)) /\ UNCHANGED <<out, status>>
Interp(a, s) ==
  /\ Go /\ "interp" \in Templates /\ a \in IntLike \cup Idx("bool")
  /\ Push(Stmt("interp", "", a, 0, 0, s), VStr(ShowV(env[a]) \o s)) /\ UNCHANGED <<out, status>>
PrintS(a) ==
  /\ Go /\ "print" \in Templates /\ a \in 1..N /\ env[a].t # "none" /\ NPrints < MaxPrints
  /\ Push(Stmt("print", "", a, 0, 0, ""), None) /\ out' = Append(out, ShowV(env[a])) /\ UNCHANGED status
\* an unused private definition whose right-hand side has a side effect:  u<n> = print! "<s>"
UPrint(s) ==
  /\ Go /\ "uprint" \in Templates /\ NPrints < MaxPrints
  /\ Push(Stmt("uprint", "", 0, 0, 0, s), None) /\ out' = Append(out, s) /\ UNCHANGED status
\* an unused private definition whose value is a block:  u<n> = (w<n> = a // b ; 2)  or with a print inside
UBlock(a, b) ==
  /\ Go /\ "ublock" \in Templates /\ a \in IntLike /\ b \in IntLike
  /\ LET v == Val("//", env[a], env[b]) IN
     /\ v.t # "skip"
     /\ Push(Stmt("ublock", "//", a, b, 0, ""), None)
     /\ status' = (IF v.t = "zde" THEN "ZeroDivisionError" ELSE "ok")
  /\ UNCHANGED out
UBlockP(s) ==
  /\ Go /\ "ublockp" \in Templates /\ NPrints < MaxPrints
  /\ Push(Stmt("ublockp", "", 0, 0, 0, s), None) /\ out' = Append(out, s) /\ UNCHANGED status
IfP(c, a, b) ==
  /\ Go /\ "ifp" \in Templates /\ c \in Idx("bool") /\ a \in IntLike /\ b \in IntLike /\ NPrints < MaxPrints
  /\ Push(Stmt("ifp", "", a, b, c, ""), None)
  /\ out' = Append(out, ShowV(IF env[c].b THEN env[a] ELSE env[b])) /\ UNCHANGED status

\* user functions of the prelude
RECURSIVE Fact(_)
Fact(n) == IF n = 0 THEN 1 ELSE n * Fact(n - 1)
Funs == {"double", "inc", "addd", "addd2", "fact"}
Apply(f, x) == CASE f = "double" -> VInt(Mul(x.v, FromInt(2)))
                 [] f = "inc" -> VInt(Add(x.v, FromInt(1)))
                 [] f = "addd" -> VInt(Add(x.v, FromInt(10)))        \* addd(x)     , default y := 10
                 [] f = "addd2" -> VInt(Add(x.v, FromInt(5)))        \* addd(x, 5)
                 [] f = "fact" -> VInt(FromInt(Fact(ToSmall(x.v))))
Call(f, a) ==
  /\ Go /\ "call" \in Templates /\ a \in IntLike
  /\ (f = "fact" => Small(a) /\ ToSmall(env[a].v) \in 0..6)
  /\ Push(Stmt("call", f, a, 0, 0, ""), Apply(f, env[a])) /\ UNCHANGED <<out, status>>
Loop(k, a) ==    \* "loop": sum of 0..<a ; "wloop": count while cnt < a ; "wloople": count while cnt <= a
  /\ Go /\ k \in Templates /\ a \in IntLike /\ Small(a) /\ ToSmall(env[a].v) \in 0..6
  /\ LET n == ToSmall(env[a].v) IN
     Push(Stmt(k, "", a, 0, 0, ""), VInt(FromInt(IF k = "loop" THEN (n * (n - 1)) \div 2 ELSE IF k = "wloop" THEN n ELSE n + 1)))
  /\ UNCHANGED <<out, status>>
LMk(a, b) == /\ Go /\ "lmk" \in Templates /\ a \in IntLike /\ b \in IntLike
             /\ Push(Stmt("lmk", "", a, b, 0, ""), VList(<<env[a], env[b]>>)) /\ UNCHANGED <<out, status>>
LCat(l, a) == /\ Go /\ "lcat" \in Templates /\ l \in Idx("list") /\ a \in IntLike /\ Len(env[l].xs) < 4
              /\ Push(Stmt("lcat", "", l, a, 0, ""), VList(Append(env[l].xs, env[a]))) /\ UNCHANGED <<out, status>>
LLen(l) == /\ Go /\ "llen" \in Templates /\ l \in Idx("list")
           /\ Push(Stmt("llen", "", l, 0, 0, ""), VInt(FromInt(Len(env[l].xs)))) /\ UNCHANGED <<out, status>>
LGet(l, i) == /\ Go /\ "lget" \in Templates /\ l \in Idx("list")
              /\ IF i < Len(env[l].xs)
                 THEN Push(Stmt("lget", "", l, i, 0, ""), env[l].xs[i + 1]) /\ UNCHANGED status
                 ELSE Push(Stmt("lget", "", l, i, 0, ""), None) /\ status' = "IndexError"
              /\ UNCHANGED out
AssertS(c) == /\ Go /\ "assert" \in Templates /\ c \in Idx("bool")
             /\ Push(Stmt("assert", "", c, 0, 0, ""), None)
             /\ status' = (IF env[c].b THEN "ok" ELSE "AssertionError") /\ UNCHANGED out
TPat(a, b) == /\ Go /\ "tpat" \in Templates /\ a \in IntLike /\ b \in IntLike
              /\ Push(Stmt("tpat", "", a, b, 0, ""), env[a]) /\ UNCHANGED <<out, status>>

CmpOpsP == {"==", "!=", "<", "<=", ">", ">="}
Next ==
  \/ \E l \in IntLits : ILit(l)
  \/ \E f \in FloatLits : FLit(f)
  \/ \E s \in StrLits : SLit(s) \/ UPrint(s) \/ UBlockP(s) \/ \E a \in 1..N : Interp(a, s)
  \/ \E a, b \in 1..N :
        \/ \E op \in {"+", "-", "*", "//", "%"} : Bin(op, a, b)
        \/ \E op \in {"+", "-", "*"} : FBin(op, a, b)
        \/ \E op \in CmpOpsP : Cmpr(op, a, b)
        \/ SCat(a, b) \/ LMk(a, b) \/ LCat(a, b) \/ TPat(a, b) \/ UBlock(a, b)
        \/ \E c \in 1..N : IfP(c, a, b)
  \/ \E a \in 1..N :
        \/ PrintS(a) \/ LLen(a) \/ AssertS(a)
        \/ \E f \in Funs : Call(f, a)
        \/ \E k \in {"loop", "wloop", "wloople"} : Loop(k, a)
        \/ \E i \in 0..3 : LGet(a, i)
Spec == Init /\ [][Next]_vars

\* design-level sanity: a program that raised prints nothing afterwards and grows no more
Stops == [][status # "ok" => UNCHANGED vars]_vars

\* state constraint for the literal x operator grid: v1, v2 literals, v3 = v1 op v2, print v3
PairShape == /\ \A i \in 1..N : (i <= 2 <=> prog[i].k = "ilit")
             /\ (N >= 3 => prog[3].a = 1 /\ prog[3].b = 2)
             /\ (N >= 4 => prog[4].k = "print" /\ prog[4].a = 3)

\* state constraint for the unit grid: literals first (at most two), one print, and it comes last
UnitShape == /\ \A i \in 1..N : (prog[i].k = "ilit" => i <= 2)
             /\ (N >= 1 => prog[1].k = "ilit")
             /\ \A i \in 1..(N - 1) : prog[i].k \notin {"print", "ifp"}

Complete == N > 0 /\ (status # "ok" \/ prog[N].k \in {"print", "ifp", "uprint", "ublockp"})
Emit == Complete => PrintT(<<"G", ToJson([prog |-> prog, out |-> out, status |-> status])>>)
=============================================================================
