SPECIFICATION Spec
CONSTANTS
  IntVals <- IQ
  FloatVals <- FQ
  MaxSteps = 6
  NatDec = FALSE
  UseBin = TRUE
  PowNat = FALSE
INVARIANT NatNonNeg
INVARIANT ClassOfValue
INVARIANT Emit
