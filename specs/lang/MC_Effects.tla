---- MODULE MC_Effects ----
EXTENDS Effects
====
