SPECIFICATION Spec
CONSTANTS
  IntLits <- ISmall
  FloatLits <- FQ
  StrLits <- SQ
  MaxStmts = 9
  Templates <- CollT
  PowNat = TRUE
  InjectKinds <- NoK
  Depths <- D0
INVARIANT Emit
