SPECIFICATION Spec
CONSTANTS
  IntLits <- IQ
  FloatLits <- FQ
  StrLits <- SQ
  MaxStmts = 9
  Templates <- AllT
  PowNat = TRUE
  InjectKinds <- NoK
  Depths <- D0
INVARIANT Emit
