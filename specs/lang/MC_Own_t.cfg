SPECIFICATION Spec
CONSTANTS
  MaxStmts = 5
  MaxVars = 3
  Scopes <- AllScopes
INVARIANT NoMoveNoBad
INVARIANT Emit
