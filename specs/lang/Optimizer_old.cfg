SPECIFICATION Spec
CONSTANTS
  NDefs = 3
  Guard = "result-type"
INVARIANT BehaviourPreserved
