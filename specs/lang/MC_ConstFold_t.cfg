SPECIFICATION Spec
CONSTANTS
  IntLits <- IT
  FloatLits <- FQ
  UseBools = TRUE
INVARIANT DivModLaw
INVARIANT Emit
