------------------------------- MODULE TypedProg -------------------------------
(***************************************************************************)
(* Static and dynamic semantics of the annotated fragment, side by side    *)
(* (C02, C05, C34).  The state is a program (a sequence of statements),    *)
(* the static type the declared operator table gives each binding, and the *)
(* value Python semantics gives it.  Each action appends one statement.    *)
(*                                                                         *)
(*   Declared table (transcribed from context/initialize/classes.rs):      *)
(*     Nat op Nat : Nat for + * // % **        Nat - Nat : Int             *)
(*     Int op Int : Int for + - * // % **      (Nat <: Int <: Float)       *)
(*     x / y : Float      anything with a Float operand : Float            *)
(*     -x : Int   x.abs() : Nat   x.succ(), x.pred() : Int                 *)
(*     Str + Str : Str    Str * Nat : Str    len(x) : Nat                  *)
(*     [a, b] : List(join)   l + [a] : List(join)   l[i] : element type    *)
(*                                                                         *)
(* TypeSound (checked by TLC in every reachable state) says the table is   *)
(* sound for Python's values: every binding's value belongs to its static  *)
(* type.  PowNat = TRUE is the table as the compiler has it                *)
(* (Int ** Int : Nat -- examples/trait.er relies on it); TLC then produces *)
(* the counterexample (-2) ** 7 : a known finding.  PowNat = FALSE         *)
(* corrects that one entry to Int and TypeSound holds.                     *)
(*                                                                         *)
(* Inject appends ONE statement with a definite static error (operator not *)
(* supported by the operand types, wrong arity, incompatible argument,     *)
(* undefined name, missing attribute) at some nesting depth and ends the   *)
(* derivation; IllTyped (also checked by TLC) says the table really has no *)
(* typing for the injected statement.                                      *)
(***************************************************************************)
EXTENDS Integers, Sequences, FiniteSets, TLC, Json, PyVal

CONSTANTS IntLits, FloatLits, StrLits, MaxStmts, Templates, PowNat, InjectKinds, Depths

VARIABLES prog,    \* sequence of statements
          ty,      \* static type of binding n ("none" if statement n binds nothing)
          env,     \* value of binding n
          status   \* "ok" | "ZeroDivisionError" | "IndexError" | "static-error"
vars == <<prog, ty, env, status>>

None == [t |-> "none"]
VStr(s) == [t |-> "str", s |-> s]
VList(xs) == [t |-> "list", xs |-> xs]
Stmt(k, op, a, b, c, s) == [k |-> k, op |-> op, a |-> a, b |-> b, c |-> c, s |-> s]

NumT == {"Nat", "Int", "Float"}
Rank(T) == CASE T = "Nat" -> 0 [] T = "Int" -> 1 [] T = "Float" -> 2
SubT(T, U) == T = U \/ (T \in NumT /\ U \in NumT /\ Rank(T) <= Rank(U))
JoinT(T, U) == IF Rank(T) >= Rank(U) THEN T ELSE U
LT(T) == "List(" \o T \o ")"
ElemT(LL) == CASE LL = "List(Nat)" -> "Nat" [] LL = "List(Int)" -> "Int" [] LL = "List(Float)" -> "Float"
ListTs == {"List(Nat)", "List(Int)", "List(Float)"}

\* the declared result type of a binary arithmetic operator; "none" when the operand types do not support it
RT(op, T, U) ==
  IF T \in NumT /\ U \in NumT
  THEN IF op = "/" THEN "Float"
       ELSE IF "Float" \in {T, U} THEN "Float"
       ELSE IF T = "Nat" /\ U = "Nat" THEN (IF op = "-" THEN "Int" ELSE "Nat")
       ELSE IF op = "**" /\ PowNat THEN "Nat"
       ELSE "Int"
  ELSE IF T = "Str" /\ U = "Str" /\ op = "+" THEN "Str"
  ELSE IF T = "Str" /\ U = "Nat" /\ op = "*" THEN "Str"
  ELSE IF T = "Str" /\ op = "%" THEN "Str"                  \* Str.__mod__: (Str, Obj) -> Str  (printf-style formatting)
  ELSE IF T \in ListTs /\ U \in ListTs /\ op = "+" THEN LT(JoinT(ElemT(T), ElemT(U)))
  ELSE IF T \in ListTs /\ U = "Nat" /\ op = "*" THEN T
  ELSE "none"

\* membership of a value in a static type
RECURSIVE Member(_, _)
Member(v, T) ==
  CASE T = "Nat" -> v.t = "int" /\ ~v.v.neg
    [] T = "Int" -> v.t = "int"
    [] T = "Float" -> v.t \in {"float", "int"}
    [] T = "Str" -> v.t = "str"
    [] T = "Bool" -> v.t = "bool"
    [] T \in ListTs -> v.t = "list" /\ \A i \in 1..Len(v.xs) : Member(v.xs[i], ElemT(T))
    [] T = "none" -> TRUE

Init == prog = <<>> /\ ty = <<>> /\ env = <<>> /\ status = "ok"
N == Len(prog)
Go == status = "ok" /\ N < MaxStmts
WithT(S) == {i \in 1..N : ty[i] \in S}
Nums == WithT(NumT)
Ints == WithT({"Nat", "Int"})
Push(st, T, v) == prog' = Append(prog, st) /\ ty' = Append(ty, T) /\ env' = Append(env, v)
Small(i) == env[i].t = "int" /\ SmallInt(env[i].v)

ILit(l) == /\ Go /\ "ilit" \in Templates
           /\ LET v == IntOf(l) IN Push(Stmt("ilit", "", 0, 0, 0, l), IF v.neg THEN "Int" ELSE "Nat", VInt(v))
           /\ UNCHANGED status
FLit(f) == /\ Go /\ "flit" \in Templates
           /\ Push(Stmt("flit", "", f[1], f[2], 0, ""), "Float", NormF(f[1], f[2])) /\ UNCHANGED status
SLit(s) == /\ Go /\ "slit" \in Templates
           /\ Push(Stmt("slit", "", 0, 0, 0, s), "Str", VStr(s)) /\ UNCHANGED status

\* the value of a OP b, whatever the form of the statement
Result(st, T, v) ==
  IF v.t = "zde" THEN Push(st, "none", None) /\ status' = "ZeroDivisionError"
  ELSE Push(st, T, v) /\ UNCHANGED status
\* v<n> = v_a op v_b
Bin(op, a, b) ==
  /\ Go /\ "bin" \in Templates /\ a \in Nums /\ b \in Nums
  /\ LET v == Val(op, env[a], env[b]) IN
     /\ v.t # "skip" /\ (v.t = "float" => (v.m < 60000 /\ v.m > -60000 /\ v.e <= 6))
     /\ Result(Stmt("bin", op, a, b, 0, ""), RT(op, ty[a], ty[b]), v)
\* f<n>(x: T, y: U) = x op y ; v<n> = f<n>(v_a, v_b)     -- operands typed by annotation, not by their literals
\* an argument bound to a parameter annotated Float is converted to a float (the code generator wraps it in Float(..))
Conv(v, T) == IF T = "Float" /\ v.t = "int" THEN (IF SmallInt(v.v) THEN FOfInt(v.v) ELSE Skip) ELSE v
Fn(op, T, U, a, b) ==
  /\ Go /\ "fn" \in Templates /\ a \in Nums /\ b \in Nums /\ SubT(ty[a], T) /\ SubT(ty[b], U)
  /\ Conv(env[a], T).t # "skip" /\ Conv(env[b], U).t # "skip"
  /\ LET v == Val(op, Conv(env[a], T), Conv(env[b], U)) IN
     /\ v.t # "skip" /\ (v.t = "float" => (v.m < 60000 /\ v.m > -60000 /\ v.e <= 6))
     /\ Result(Stmt("fn", op, a, b, 0, T \o "," \o U), RT(op, T, U), v)
\* v<n>: T = v_a     -- widening annotation
Ann(T, a) ==
  /\ Go /\ "ann" \in Templates /\ a \in Nums /\ SubT(ty[a], T)
  /\ Push(Stmt("ann", "", a, 0, 0, T), T, env[a]) /\ UNCHANGED status
Cmpr(op, a, b) ==
  /\ Go /\ "cmp" \in Templates /\ a \in Ints /\ b \in Ints
  /\ Push(Stmt("cmp", op, a, b, 0, ""), "Bool", Val(op, env[a], env[b])) /\ UNCHANGED status
NegS(a) == /\ Go /\ "neg" \in Templates /\ a \in Ints
          /\ Push(Stmt("neg", "", a, 0, 0, ""), "Int", VInt(Neg(env[a].v))) /\ UNCHANGED status
Meth(m, a) ==
  /\ Go /\ "meth" \in Templates /\ a \in Ints
  /\ LET x == env[a].v IN
     CASE m = "abs" -> Push(Stmt("meth", m, a, 0, 0, ""), "Nat", VInt(IF x.neg THEN Neg(x) ELSE x))
       [] m = "succ" -> Push(Stmt("meth", m, a, 0, 0, ""), "Int", VInt(Add(x, FromInt(1))))
       [] m = "pred" -> Push(Stmt("meth", m, a, 0, 0, ""), "Int", VInt(Sub(x, FromInt(1))))
  /\ UNCHANGED status
SCat(a, b) ==
  /\ Go /\ "scat" \in Templates /\ a \in WithT({"Str"}) /\ b \in WithT({"Str"}) /\ Len(env[a].s) + Len(env[b].s) <= 10
  /\ Push(Stmt("scat", "+", a, b, 0, ""), "Str", VStr(env[a].s \o env[b].s)) /\ UNCHANGED status
RECURSIVE Rep(_, _)
Rep(s, n) == IF n = 0 THEN "" ELSE s \o Rep(s, n - 1)
SMul(a, b) ==
  /\ Go /\ "smul" \in Templates /\ a \in WithT({"Str"}) /\ b \in WithT({"Nat"}) /\ Small(b) /\ ToSmall(env[b].v) <= 3
  /\ Push(Stmt("smul", "*", a, b, 0, ""), "Str", VStr(Rep(env[a].s, ToSmall(env[b].v)))) /\ UNCHANGED status
SLen(a) ==
  /\ Go /\ "slen" \in Templates /\ a \in WithT({"Str"} \cup ListTs)
  /\ Push(Stmt("slen", "", a, 0, 0, ""), "Nat",
          VInt(FromInt(IF env[a].t = "str" THEN Len(env[a].s) ELSE Len(env[a].xs)))) /\ UNCHANGED status
LMk(a, b) ==
  /\ Go /\ "lmk" \in Templates /\ a \in Nums /\ b \in Nums
  /\ Push(Stmt("lmk", "", a, b, 0, ""), LT(JoinT(ty[a], ty[b])), VList(<<env[a], env[b]>>)) /\ UNCHANGED status
LCat(l, a) ==
  /\ Go /\ "lcat" \in Templates /\ l \in WithT(ListTs) /\ a \in Nums /\ Len(env[l].xs) < 4
  /\ Push(Stmt("lcat", "", l, a, 0, ""), LT(JoinT(ElemT(ty[l]), ty[a])), VList(Append(env[l].xs, env[a]))) /\ UNCHANGED status
\* v<n> = v_l[i]   with a literal index; out of range raises (when the checker lets it through at all)
LGet(l, i) ==
  /\ Go /\ "lget" \in Templates /\ l \in WithT(ListTs)
  /\ IF i < Len(env[l].xs)
     THEN Push(Stmt("lget", "", l, i, 0, ""), ElemT(ty[l]), env[l].xs[i + 1]) /\ UNCHANGED status
     ELSE Push(Stmt("lget", "", l, i, 0, ""), "none", None) /\ status' = "IndexError"
\* m<n> = ![v_a, v_b] ; m<n>.push! v_c ; v<n> = m<n>[i]      -- a mutable list whose length the checker tracks
LPush(a, b, c, i) ==
  /\ Go /\ "lpush" \in Templates /\ a \in Ints /\ b \in Ints /\ c \in Ints
  /\ LET xs == <<env[a], env[b], env[c]>> IN
     /\ Push(Stmt("lpush", "", a, b, c, ToString(i)), JoinT(JoinT(ty[a], ty[b]), ty[c]), xs[i + 1]) /\ UNCHANGED status
\* v<n> = v_l.map(i -> i + v_a).to_list()
LMap(l, a) ==
  /\ Go /\ "lmap" \in Templates /\ l \in WithT({"List(Nat)", "List(Int)"}) /\ a \in Ints
  /\ LET T == IF ElemT(ty[l]) = "Nat" /\ ty[a] = "Nat" THEN "Nat" ELSE "Int" IN
     Push(Stmt("lmap", "", l, a, 0, ""), LT(T),
          VList([j \in 1..Len(env[l].xs) |-> VInt(Add(env[l].xs[j].v, env[a].v))])) /\ UNCHANGED status

\* f<n>(i: Int) = if <lit> op i, do i, do <els>   (form "li")   or   if i op <lit>, ... (form "il");  v<n> = f<n>(v_a)
\* the checker narrows i in the then-branch by the comparison; the value is i or the else literal
IfG(form, op, lit, els, a) ==
  /\ Go /\ "ifg" \in Templates /\ a \in Ints /\ Small(a)
  /\ LET l == VInt(FromInt(lit))
         c == IF form = "li" THEN Val(op, l, env[a]) ELSE Val(op, env[a], l)
     IN Push(Stmt("ifg", op, a, 0, els, form \o "," \o ToString(lit)), "Int", IF c.b THEN env[a] ELSE VInt(FromInt(els)))
  /\ UNCHANGED status
\* v<n> = v_l.push(v_a)     -- an immutable list: a new list, the old binding keeps its value
LPushI(l, a) ==
  /\ Go /\ "lpushi" \in Templates /\ l \in WithT(ListTs) /\ a \in Nums /\ Len(env[l].xs) < 4
  /\ Push(Stmt("lpushi", "", l, a, 0, ""), LT(JoinT(ElemT(ty[l]), ty[a])), VList(Append(env[l].xs, env[a]))) /\ UNCHANGED status
\* v<n> = (v_a op v_b).m()     -- a method called on an operator expression
OpMeth(op, m, a, b) ==
  /\ Go /\ "opmeth" \in Templates /\ a \in Ints /\ b \in Ints
  /\ LET r == Val(op, env[a], env[b]) IN
     /\ r.t \notin {"skip", "zde"}
     /\ LET x == r.v IN
        CASE m = "abs" -> Push(Stmt("opmeth", op, a, b, 0, m), "Nat", VInt(IF x.neg THEN Neg(x) ELSE x))
          [] m = "succ" -> Push(Stmt("opmeth", op, a, b, 0, m), "Int", VInt(Add(x, FromInt(1))))
          [] m = "pred" -> Push(Stmt("opmeth", op, a, b, 0, m), "Int", VInt(Sub(x, FromInt(1))))
  /\ UNCHANGED status

\* the most precise class-level type of a value
RECURSIVE MinT(_)
MinT(v) == CASE v.t = "int" -> (IF v.v.neg THEN "Int" ELSE "Nat")
             [] v.t = "float" -> "Float" [] v.t = "str" -> "Str" [] v.t = "bool" -> "Bool"
             [] v.t = "list" -> LT(IF \E i \in 1..Len(v.xs) : MinT(v.xs[i]) = "Float" THEN "Float"
                                  ELSE IF \E i \in 1..Len(v.xs) : MinT(v.xs[i]) = "Int" THEN "Int" ELSE "Nat")
             [] OTHER -> "none"

\* ---- one injected definite static error, at nesting depth d; ends the derivation
Ops == {"+", "-", "*", "//", "%", "**"}
Inject(kind, d, op, a, b) ==
  /\ Go /\ N >= 2 /\ kind \in InjectKinds /\ d \in Depths
  /\ CASE kind = "opmis" -> /\ ty[a] \notin {"none", "Bool"} /\ ty[b] \notin {"none", "Bool"}
                             /\ RT(op, ty[a], ty[b]) = "none"
                             \* definite: not even the most precise types of the two values support the operator
                             /\ RT(op, MinT(env[a]), MinT(env[b])) = "none"
       [] kind = "argty" -> /\ a \in WithT(NumT \cup {"Str"}) /\ op \in {"Nat", "Int"} /\ ~SubT(ty[a], op) /\ b = a
                             /\ ~Member(env[a], op)            \* definite: the value itself is outside the parameter type
       [] kind \in {"arity", "arityf"} -> a \in Nums /\ op \in {"1", "3"} /\ b = a
       [] kind = "undef" -> a \in 1..N /\ ty[a] # "none" /\ op = "+" /\ b = a
       [] kind = "noattr" -> a \in 1..N /\ ty[a] # "none" /\ op = "nosuch" /\ b = a
  /\ Push(Stmt("inject", op, a, b, d, kind), "none", None)
  /\ status' = "static-error"

CmpOpsP == {"==", "!=", "<", "<=", ">", ">="}
Next ==
  \/ \E l \in IntLits : ILit(l)
  \/ \E f \in FloatLits : FLit(f)
  \/ \E s \in StrLits : SLit(s)
  \/ \E a, b \in 1..N :
        \/ \E op \in Ops \cup {"/"} : Bin(op, a, b) \/ \E T, U \in NumT : Fn(op, T, U, a, b)
        \/ \E op \in CmpOpsP : Cmpr(op, a, b)
        \/ SCat(a, b) \/ SMul(a, b) \/ LMk(a, b) \/ LCat(a, b) \/ LMap(a, b) \/ LPushI(a, b)
        \/ \E op \in {"+", "-", "*", "//", "%"}, m \in {"abs", "succ", "pred"} : OpMeth(op, m, a, b)
        \/ \E c \in 1..N, i \in 0..2 : LPush(a, b, c, i)
        \/ \E kind \in InjectKinds, d \in Depths, op \in Ops \cup {"Nat", "Int", "1", "3", "nosuch"} : Inject(kind, d, op, a, b)
  \/ \E a \in 1..N :
        \/ NegS(a) \/ SLen(a)
        \/ \E m \in {"abs", "succ", "pred"} : Meth(m, a)
        \/ \E T \in NumT : Ann(T, a)
        \/ \E i \in 0..4 : LGet(a, i)
        \/ \E form \in {"li", "il"}, op \in CmpOpsP, lit \in {0, 2}, els \in {0} : IfG(form, op, lit, els, a)
Spec == Init /\ [][Next]_vars

\* ---- design-level properties, checked by TLC
TypeSound == \A i \in 1..N : Member(env[i], ty[i])
IllTyped == (status = "static-error") =>
              LET st == prog[N] IN
              CASE st.s = "opmis" -> RT(st.op, ty[st.a], ty[st.b]) = "none" /\ RT(st.op, MinT(env[st.a]), MinT(env[st.b])) = "none"
                [] st.s = "argty" -> ~SubT(ty[st.a], st.op) /\ ~Member(env[st.a], st.op)
                [] OTHER -> TRUE

\* state constraint for the exhaustive pair grid: v1, v2 literals, v3 one operator statement on them
PairShape == \A i \in 1..N : (i <= 2 <=> prog[i].k = "ilit")

ShowV(x) == IF x.t = "str" THEN x.s
            ELSE IF x.t = "list" THEN "[" \o (LET RECURSIVE J(_) J(i) == IF i > Len(x.xs) THEN "" ELSE Show(x.xs[i]) \o (IF i < Len(x.xs) THEN ", " ELSE "") \o J(i + 1) IN J(1)) \o "]"
            ELSE IF x.t = "none" THEN "" ELSE Show(x)
\* every prefix of a derivation is a program: in simulation mode TLC evaluates the invariant on every successor of
\* every state of a trace, so one trace yields each one-statement extension of each of its prefixes
Complete == N >= 3
Emit == Complete => PrintT(<<"T", ToJson([prog |-> prog, ty |-> ty, vals |-> [i \in 1..N |-> ShowV(env[i])], status |-> status])>>)
=============================================================================
