SPECIFICATION Spec
CONSTANTS
  IntLits <- ISmall
  FloatLits <- FQ
  StrLits <- SQ
  MaxStmts = 8
  Templates <- AllT
  PowNat = TRUE
  InjectKinds <- AllK
  Depths <- DAll
INVARIANT IllTyped
INVARIANT Emit
