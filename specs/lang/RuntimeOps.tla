------------------------------- MODULE RuntimeOps -------------------------------
(***************************************************************************)
(* C26: Erg's runtime classes (lib/core/_erg_nat.py, _erg_int.py,          *)
(* _erg_float.py, _erg_bool.py and their mutable variants) as a state      *)
(* machine.  The state is one object: its class and its value.  Every      *)
(* action applies one operation of the classes to it -- an operator with   *)
(* another wrapper or a plain Python operand (on either side), a unary     *)
(* operator, a method, .mutate(), or an in-place operation of a mutable    *)
(* cell -- and the next state is the object the operation must return:     *)
(* the value Python's built-ins compute (PyVal / BigInt) in the class the  *)
(* Erg declaration promises (context/initialize/classes.rs).               *)
(*                                                                         *)
(*   declared classes:  Nat op Nat : Nat for + * // % **   Nat - Nat : Int *)
(*                      anything with an Int (or plain int) operand : Int  *)
(*                      x / y : Float, anything with a Float : Float       *)
(*                      -x : Int    abs(x) : Nat    succ, pred : Int       *)
(*                      a mutable cell stays a cell of its own class       *)
(*                                                                         *)
(* NatNonNeg (TLC, every reachable state): an object whose class is Nat,   *)
(* Bool or Nat! never holds a negative value.  With NatDec = TRUE the      *)
(* machine has dec! on Nat! cells as the runtime has it (inherited from    *)
(* Int!) and TLC finds 0.dec!() = -1.                                      *)
(* Replay: every behaviour is executed on the real classes under each      *)
(* supported interpreter; after every step value and class are compared.   *)
(***************************************************************************)
EXTENDS Integers, Sequences, FiniteSets, TLC, Json, PyVal

CONSTANTS IntVals, FloatVals, MaxSteps, NatDec, PowNat,
          UseBin     \* FALSE: no binary operators on wrappers (focus on unary operators, methods and mutable cells)

VARIABLES cur,    \* [cls, v]
          hist,   \* the steps taken (observation only: hidden by the VIEW)
          start   \* the object the behaviour started from
vars == <<cur, hist, start>>

Obj(c, v) == [cls |-> c, v |-> v]
Wrappers == {"Nat", "Int", "Float", "Bool"}
Plains == {"int", "float", "bool"}
Cells == {"Nat!", "Int!", "Float!"}
\* the Erg class a Python value of class c counts as
ErgCls(c) == CASE c = "int" -> "Int" [] c = "float" -> "Float" [] c = "bool" -> "Bool"
               [] c = "Nat!" -> "Nat" [] c = "Int!" -> "Int" [] c = "Float!" -> "Float" [] OTHER -> c
Rank(c) == CASE c = "Bool" -> 0 [] c = "Nat" -> 1 [] c = "Int" -> 2 [] c = "Float" -> 3

IntObjs == {Obj(IF IntOf(l).neg THEN "Int" ELSE "Nat", VInt(IntOf(l))) : l \in IntVals}
           \cup {Obj("Int", VInt(IntOf(l))) : l \in IntVals}                   \* a non-negative Int too
PlainInts == {Obj("int", VInt(IntOf(l))) : l \in IntVals}
FloatObjs == {Obj("Float", NormF(f[1], f[2])) : f \in FloatVals} \cup {Obj("float", NormF(f[1], f[2])) : f \in FloatVals}
BoolObjs == {Obj("Bool", VBool(TRUE)), Obj("Bool", VBool(FALSE)), Obj("bool", VBool(TRUE))}
Operands == IntObjs \cup PlainInts \cup FloatObjs \cup BoolObjs

\* declared class of  a op b  for Erg classes ca, cb
DC(op, ca, cb) ==
  IF op \in CmpOps THEN "Bool"
  ELSE IF op = "/" THEN "Float"
  ELSE IF Rank(ca) = 3 \/ Rank(cb) = 3 THEN "Float"
  ELSE IF Rank(ca) <= 1 /\ Rank(cb) <= 1 THEN (IF op = "-" THEN "Int" ELSE "Nat")
  ELSE IF op = "**" /\ PowNat THEN "Nat"
  ELSE "Int"

\* operators the wrapper classes override (lib/core/_erg_int.py, _erg_nat.py, _erg_float.py): for these the result of
\* `wrapper op x` must itself be an instance of a wrapper class, not a plain built-in value
Overrides(c, op) == \/ c \in {"Int", "Nat"} /\ op \in {"+", "-", "*", "//", "**"}
                    \/ c = "Float" /\ op \in {"+", "-", "*", "/", "//", "**"}
Step(k, op, other, res) == [k |-> k, op |-> op, other |-> other, res |-> res,
                            w |-> k = "binr" /\ Overrides(cur.cls, op) /\ other.cls \notin {"Nat!", "Int!", "Float!"}
                                  /\ (cur.cls = "Float" \/ Rank(ErgCls(other.cls)) <= 2)]      \* int op float is float's business
Go == Len(hist) < MaxSteps
Bounded(v) == (v.t = "float" => (v.m < 1000000 /\ v.m > -1000000 /\ v.e <= 8))
Take(k, op, other, res) ==
  /\ Bounded(res.v)
  /\ cur' = res /\ hist' = Append(hist, Step(k, op, other, res)) /\ UNCHANGED start

\* cur op other   /   other op cur
BinR(op, o) ==
  /\ Go /\ cur.cls \in Wrappers
  /\ LET v == Val(op, cur.v, o.v) IN
     /\ v.t \notin {"skip", "zde"}
     /\ Take("binr", op, o, Obj(DC(op, cur.cls, ErgCls(o.cls)), v))
BinL(op, o) ==
  /\ Go /\ cur.cls \in Wrappers
  /\ LET v == Val(op, o.v, cur.v) IN
     /\ v.t \notin {"skip", "zde"}
     /\ Take("binl", op, o, Obj(DC(op, ErgCls(o.cls), cur.cls), v))
\* division by zero must raise ZeroDivisionError and leaves the object as it is
DivZero(op, o) ==
  /\ Go /\ cur.cls \in Wrappers /\ Val(op, cur.v, o.v).t = "zde"
  /\ cur' = cur /\ hist' = Append(hist, Step("zde", op, o, cur)) /\ UNCHANGED start
Un(op) ==
  /\ Go /\ cur.cls \in {"Nat", "Int", "Float"}
  /\ CASE op = "neg" -> UVal("neg", cur.v).t # "skip" /\ Take("un", op, cur, Obj(IF cur.cls = "Float" THEN "Float" ELSE "Int", UVal("neg", cur.v)))
       [] op = "pos" -> Take("un", op, cur, cur)
       [] op = "abs" -> /\ cur.v.t = "int"
                        /\ Take("un", op, cur, Obj("Nat", VInt(IF cur.v.v.neg THEN Neg(cur.v.v) ELSE cur.v.v)))
Meth(m) ==
  /\ Go /\ cur.cls \in {"Nat", "Int"}
  /\ CASE m = "succ" -> Take("meth", m, cur, Obj("Int", VInt(Add(cur.v.v, FromInt(1)))))
       [] m = "pred" -> Take("meth", m, cur, Obj("Int", VInt(Sub(cur.v.v, FromInt(1)))))
\* x.mutate(): a cell of the same class holding the same value
Mutate ==
  /\ Go /\ cur.cls \in {"Nat", "Int", "Float"}
  /\ Take("mutate", "", cur, Obj(cur.cls \o "!", cur.v))
\* in-place operations of a cell
CellOp(m, o) ==
  /\ Go /\ cur.cls \in Cells /\ o.cls \in {"Nat", "Int", "int"} /\ SmallInt(o.v.v)
  /\ (cur.cls = "Float!" => SmallInt(o.v.v))
  /\ LET v == Val(IF m = "inc" THEN "+" ELSE "-", cur.v, o.v) IN
     /\ v.t # "skip"
     /\ (cur.cls = "Nat!" /\ ~NatDec => ~v.v.neg)      \* without NatDec: inc!/dec! only while the result is a Nat
     /\ Take("cell", m, o, Obj(cur.cls, v))
\* dec! of a Nat! cell below zero: whatever the runtime does (it may raise), the cell must still hold a Nat
DecBelow(m, o) ==
  /\ Go /\ cur.cls = "Nat!" /\ o.cls \in {"Nat", "Int", "int"} /\ SmallInt(o.v.v)
  /\ LET v == Val(IF m = "inc" THEN "+" ELSE "-", cur.v, o.v) IN v.t = "int" /\ v.v.neg
  /\ cur' = cur /\ hist' = Append(hist, Step("decbelow", m, o, cur)) /\ UNCHANGED start
\* cell op other: a new cell of the same class (Nat! - x may not go below zero: not modelled beyond the non-negative case)
CellBin(op, o) ==
  /\ Go /\ cur.cls \in Cells /\ o.cls \in {"Nat", "Int", "int"} /\ op \in {"+", "*"}
  /\ LET v == Val(op, cur.v, o.v) IN
     /\ v.t # "skip" /\ (cur.cls = "Nat!" => v.t = "int" /\ ~v.v.neg)
     /\ Take("cellbin", op, o, Obj(cur.cls, v))

Init == cur \in IntObjs \cup {o \in FloatObjs : o.cls = "Float"} \cup {o \in BoolObjs : o.cls = "Bool"} /\ hist = <<>> /\ start = cur
Next ==
  \/ UseBin /\ \E op \in ArithOps \cup CmpOps, o \in Operands : BinR(op, o) \/ BinL(op, o) \/ DivZero(op, o)
  \/ \E op \in {"neg", "pos", "abs"} : Un(op)
  \/ \E m \in {"succ", "pred"} : Meth(m)
  \/ Mutate
  \/ \E m \in {"inc", "dec"}, o \in IntObjs \cup PlainInts : CellOp(m, o) \/ DecBelow(m, o)
  \/ \E op \in {"+", "*"}, o \in IntObjs \cup PlainInts : CellBin(op, o)
Spec == Init /\ [][Next]_vars
View == cur

\* ---- design-level invariants
NatNonNeg == ErgCls(cur.cls) \in {"Nat", "Bool"} /\ cur.v.t = "int" => ~cur.v.v.neg
ClassOfValue == CASE cur.v.t = "float" -> ErgCls(cur.cls) = "Float"
                  [] cur.v.t = "bool" -> ErgCls(cur.cls) = "Bool"
                  [] cur.v.t = "int" -> ErgCls(cur.cls) \in {"Nat", "Int", "Float"}

ShowO(o) == [cls |-> o.cls, v |-> Show(o.v)]
Emit == (Len(hist) = MaxSteps) =>
   PrintT(<<"R", ToJson([start |-> ShowO(start), steps |-> [i \in 1..Len(hist) |-> [k |-> hist[i].k, op |-> hist[i].op, other |-> ShowO(hist[i].other),
                                                             res |-> ShowO(hist[i].res), w |-> hist[i].w]]])>>)
=============================================================================
