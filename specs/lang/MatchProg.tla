------------------------------- MODULE MatchProg -------------------------------
(***************************************************************************)
(* C33: an accepted match always has an arm that matches.                  *)
(*                                                                         *)
(* A derivation fixes the scrutinee's declared type T and then adds arms    *)
(* one at a time.  The derived program is                                  *)
(*      m(x: T) = match x:  <arm 1> -> 1 ; <arm 2> -> 2 ; ...              *)
(* called on every value of Dom(T), a finite sample of T's values that     *)
(* contains every literal an arm can mention and a value on either side    *)
(* of it.                                                                  *)
(*                                                                         *)
(* Layer A (run-time meaning): an arm matches a value if it is the same    *)
(* literal, an instance of the arm's class, or the arm is a wildcard; the  *)
(* result of the match is the number of the first matching arm; no arm =   *)
(* failure.                                                                *)
(* Layer B (the checker's rule, lower.rs/inquire.rs): the match is         *)
(* accepted iff T is a subtype of the union of the arms' pattern types     *)
(* ({lit}, the class, Obj for a wildcard).  Sound (checked by TLC in       *)
(* every reachable state):  AcceptedB => every value of Dom(T) matches.    *)
(***************************************************************************)
EXTENDS Integers, Sequences, FiniteSets, TLC, Json

CONSTANTS MaxArms

VARIABLES T,      \* scrutinee type (a string naming one of Types)
          arms    \* sequence of arms [k |-> "lit"|"cls"|"wild", v |-> value or class name]
vars == <<T, arms>>

I(n) == [t |-> "int", n |-> n]
S(s) == [t |-> "str", s |-> s]
B(b) == [t |-> "bool", b |-> b]
C(c) == [t |-> "cls", c |-> c]        \* a class, an interval, or Obj, as an atom

Types == {"Int", "Nat", "Str", "Bool", "{1, 2, 3}", "1..3", "{\"a\", \"b\"}", "Int or Str", "Nat or Bool", "{0} or Str", "Bool or Str"}
IntSample == {I(n) : n \in -2..4}
StrSample == {S("a"), S("b"), S("zz"), S("")}
BoolSample == {B(TRUE), B(FALSE)}
\* the sampled domain of a type
Dom(ty) ==
  CASE ty = "Int" -> IntSample
    [] ty = "Nat" -> {v \in IntSample : v.n >= 0}
    [] ty = "Str" -> StrSample
    [] ty = "Bool" -> BoolSample
    [] ty = "{1, 2, 3}" -> {I(1), I(2), I(3)}
    [] ty = "1..3" -> {I(1), I(2), I(3)}
    [] ty = "{\"a\", \"b\"}" -> {S("a"), S("b")}
    [] ty = "Int or Str" -> IntSample \cup StrSample
    [] ty = "Nat or Bool" -> {v \in IntSample : v.n >= 0} \cup BoolSample
    [] ty = "{0} or Str" -> {I(0)} \cup StrSample
    [] ty = "Bool or Str" -> BoolSample \cup StrSample

Lits == {I(0), I(1), I(2), I(3), S("a"), S("b"), B(TRUE), B(FALSE)}
Classes == {"Int", "Nat", "Str", "Bool"}
\* interval patterns `(_: lo..hi)` with each kind of bound: [name, lo, hi] with lo/hi INCLUSIVE integer bounds of the denotation
Intervals == {"1..2", "0<..<4", "0..<3", "1<..3"}
IvLo(c) == CASE c = "1..2" -> 1 [] c = "0<..<4" -> 1 [] c = "0..<3" -> 0 [] c = "1<..3" -> 2 [] c = "1..3" -> 1
IvHi(c) == CASE c = "1..2" -> 2 [] c = "0<..<4" -> 3 [] c = "0..<3" -> 2 [] c = "1<..3" -> 3 [] c = "1..3" -> 3

\* ---- layer A: run-time matching (Python semantics of the generated code: True == 1, bool is an int)
AsNum(v) == IF v.t = "bool" THEN (IF v.b THEN 1 ELSE 0) ELSE v.n
InClass(v, c) ==
  CASE c = "Int" -> v.t \in {"int", "bool"}
    [] c = "Nat" -> (v.t = "bool") \/ (v.t = "int" /\ v.n >= 0)
    [] c = "Str" -> v.t = "str"
    [] c = "Bool" -> v.t = "bool"
    [] c \in Intervals -> v.t \in {"int", "bool"} /\ AsNum(v) >= IvLo(c) /\ AsNum(v) <= IvHi(c)
LitEq(v, l) == IF v.t = "str" \/ l.t = "str" THEN v = l ELSE AsNum(v) = AsNum(l)
Matches(arm, v) ==
  CASE arm.k = "wild" -> TRUE
    [] arm.k = "cls" -> InClass(v, arm.v.c)
    [] arm.k = "lit" -> LitEq(v, arm.v)
FirstMatch(v) == IF \E i \in 1..Len(arms) : Matches(arms[i], v)
                 THEN CHOOSE i \in 1..Len(arms) : Matches(arms[i], v) /\ \A j \in 1..(i - 1) : ~Matches(arms[j], v)
                 ELSE 0
Covered == \A v \in Dom(T) : FirstMatch(v) # 0

\* ---- layer B: the checker's rule, on the syntax of types
\* atoms of a type: a set of classes and literal singletons whose union it is
Atoms(ty) ==
  CASE ty = "Int" -> {C("Int")} [] ty = "Nat" -> {C("Nat")} [] ty = "Str" -> {C("Str")} [] ty = "Bool" -> {C("Bool")}
    [] ty = "{1, 2, 3}" -> {I(1), I(2), I(3)}
    [] ty = "1..3" -> {C("1..3")}
    [] ty = "{\"a\", \"b\"}" -> {S("a"), S("b")}
    [] ty = "Int or Str" -> {C("Int"), C("Str")}
    [] ty = "Nat or Bool" -> {C("Nat"), C("Bool")}
    [] ty = "{0} or Str" -> {I(0), C("Str")}
    [] ty = "Bool or Str" -> {C("Bool"), C("Str")}
ArmAtom(arm) == arm.v
ClassSub(c, d) == c = d \/ d = "Obj" \/ (c = "Bool" /\ d \in {"Nat", "Int"}) \/ (c = "Nat" /\ d = "Int")
LitClass(l) == CASE l.t = "int" -> (IF l.n >= 0 THEN "Nat" ELSE "Int") [] l.t = "str" -> "Str" [] l.t = "bool" -> "Bool"
IsLit(a) == a.t # "cls"
\* one atom below one atom
AtomSub(a, b) ==
  IF a = b THEN TRUE
  ELSE IF b = C("Obj") THEN TRUE
  ELSE IF IsLit(a) THEN (IF IsLit(b) THEN FALSE
                         ELSE IF b.c \in Intervals THEN a.t = "int" /\ a.n >= IvLo(b.c) /\ a.n <= IvHi(b.c)
                         ELSE b.c \in Classes /\ ClassSub(LitClass(a), b.c))
  ELSE IF a = C("1..3") THEN (b \in {C("Nat"), C("Int")} \/ (~IsLit(b) /\ b.c \in Intervals /\ IvLo(b.c) <= 1 /\ IvHi(b.c) >= 3))
  ELSE IF IsLit(b) \/ b = C("1..3") \/ b.c \in Intervals THEN FALSE
  ELSE ClassSub(a.c, b.c)
\* an atom below a union of atoms: below one of them, or (Bool, interval) split into its literals
Below(a, bs) ==
  \/ \E b \in bs : AtomSub(a, b)
  \/ a = C("Bool") /\ B(TRUE) \in bs /\ B(FALSE) \in bs
  \/ a = C("1..3") /\ {I(1), I(2), I(3)} \subseteq bs
AcceptedB == \A a \in Atoms(T) : Below(a, {ArmAtom(arms[i]) : i \in 1..Len(arms)})

\* ---- derivation
Init == T \in Types /\ arms = <<>>
AddArm(arm) == /\ Len(arms) < MaxArms
               /\ (Len(arms) > 0 => arms[Len(arms)].k # "wild")      \* nothing after a wildcard
               /\ \A i \in 1..Len(arms) : arms[i] # arm
               /\ arms' = Append(arms, arm) /\ UNCHANGED T
\* an arm's pattern must be able to meet the scrutinee type (otherwise the checker rejects the arm itself)
Relevant(arm) == arm.k = "wild" \/ \E v \in Dom(T) : Matches(arm, v)
Next == \E arm \in [k : {"lit"}, v : Lits] \cup [k : {"cls"}, v : {C(c) : c \in Classes \cup Intervals}] \cup {[k |-> "wild", v |-> C("Obj")]} :
           Relevant(arm) /\ AddArm(arm)
Spec == Init /\ [][Next]_vars

\* the checker's rule is sound for the run-time meaning
RuleSound == AcceptedB => Covered

Emit == Len(arms) >= 1 =>
          PrintT(<<"M", ToJson([T |-> T, arms |-> arms, accepted |-> AcceptedB, covered |-> Covered,
                                calls |-> LET D == Dom(T) IN {[v |-> v, arm |-> FirstMatch(v)] : v \in D}])>>)
=============================================================================
