SPECIFICATION Spec
CONSTANTS
  IntLits <- IUnit
  FloatLits <- NoF
  StrLits <- NoS
  MaxStmts = 4
  Templates <- UnitT
  MaxPrints = 1
CONSTRAINT UnitShape
INVARIANT Emit
