SPECIFICATION Spec
CONSTANTS
  MaxStmts = 4
  MaxVars = 3
  Scopes <- AllScopes
INVARIANT NoMoveNoBad
INVARIANT Emit
