SPECIFICATION Spec
CONSTANTS
  IntLits <- ISmall
  FloatLits <- NoF
  StrLits <- NoS
  MaxStmts = 3
  Templates <- NumOnly
  PowNat = TRUE
  InjectKinds <- NoK
  Depths <- D0
INVARIANT TypeSound
