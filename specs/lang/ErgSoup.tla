------------------------------- MODULE ErgSoup -------------------------------
(***************************************************************************)
(* C07 (and the base of C05): syntactically valid programs with *untyped*  *)
(* holes.  The templates are those of ErgProg.tla plus unannotated         *)
(* multi-statement functions, but every operand hole may be filled with    *)
(* any earlier variable whatever its type, so most programs are ill-typed. *)
(* No semantics is attached: the only expectation is that checking and     *)
(* code generation terminate with success or ordinary diagnostics.         *)
(***************************************************************************)
EXTENDS Integers, Sequences, FiniteSets, TLC, Json
CONSTANTS MaxStmts, Kinds
Ops == {"+", "-", "*", "//", "%", "**", "/", "==", "<", "and", "or", "in"}
Funs == {"double", "inc", "addd", "fact", "len", "abs", "not", "str", "nosuch"}
VARIABLE prog
N == Len(prog)
St(k, op, a, b, s) == [k |-> k, op |-> op, a |-> a, b |-> b, c |-> 0, s |-> s]
Init == prog = <<>>
Defined == 1..N
Add(st) == /\ N < MaxStmts /\ st.k \in Kinds /\ prog' = Append(prog, st)
Next == \/ \E l \in {"0", "m7", "i31", "i63"} : Add(St("ilit", "", 0, 0, l))
        \/ \E s \in {"ab", "q\"t"} : Add(St("slit", "", 0, 0, s))
        \/ Add(St("flit", "", 3, 1, "")) \/ Add(St("blit", "", 0, 0, "True")) \/ Add(St("none", "", 0, 0, "None"))
        \/ Add(St("erec", "", 0, 0, ""))                       \* the empty record {=}, alone and as a field of a record
        \/ \E a \in Defined, b \in Defined, op \in Ops : Add(St("bin", op, a, b, ""))
        \/ \E a \in Defined, f \in Funs : Add(St("call", f, a, 0, ""))
        \/ \E a \in Defined, b \in Defined : \/ Add(St("lmk", "", a, b, "")) \/ Add(St("lget", "", a, b, ""))
                                             \/ Add(St("tpat", "", a, b, "")) \/ Add(St("rec", "", a, b, ""))
                                             \/ Add(St("lam", "", a, b, "")) \/ Add(St("fn2", "", a, b, ""))
                                             \/ Add(St("attr", "", a, b, "")) \/ Add(St("dict", "", a, b, ""))
        \/ \E a \in Defined : \/ Add(St("print", "", a, 0, "")) \/ Add(St("loop", "", a, 0, "")) \/ Add(St("assert", "", a, 0, ""))
                              \/ Add(St("neg", "", a, 0, "")) \/ Add(St("mut", "", a, 0, "")) \/ Add(St("cls", "", a, 0, ""))
                              \/ Add(St("match", "", a, 0, "")) \/ Add(St("ifexpr", "", a, 0, ""))
                              \/ Add(St("matchd", "", a, 0, "")) \/ Add(St("matchd2", "", a, 0, ""))   \* arms with default parameters
                              \/ Add(St("recn", "", a, 0, ""))      \* a record with a nested empty record, inside a function
                              \/ Add(St("lamd", "", a, 0, ""))      \* a lambda with a default parameter
Spec == Init /\ [][Next]_prog
Emit == N > 0 => PrintT(<<"S", ToJson([prog |-> prog])>>)
=============================================================================
