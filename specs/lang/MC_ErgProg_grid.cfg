SPECIFICATION Spec
CONSTANTS
  IntLits <- IG
  FloatLits <- NoF
  StrLits <- NoS
  MaxStmts = 4
  Templates <- GridT
  MaxPrints = 1
PROPERTY Stops
INVARIANT Emit
