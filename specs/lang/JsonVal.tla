------------------------------- MODULE JsonVal -------------------------------
(***************************************************************************)
(* C18: the JSON transpile target.  A module is a list of public bindings  *)
(* whose initialisers are constant values; the document must map each      *)
(* binding name to that value.  Values are derived in prefix form, one     *)
(* token <<kind, payload>> per node:                                       *)
(*   int/float/str/bool/none leaves (payload names the literal),           *)
(*   ilist / slist (two integer / two string elements: Erg lists are       *)
(*   homogeneous), tuple (two values), record (fields x, y), dict (one     *)
(*   string key from the palette).                                                      *)
(* Meaning of a value as JSON (RFC 8259): numbers by value, strings by     *)
(* content, True/False -> true/false, None -> null, lists and tuples ->    *)
(* arrays, records and dicts -> objects.                                   *)
(***************************************************************************)
EXTENDS Integers, Sequences, FiniteSets, TLC, Json

CONSTANTS IntLits, FloatLits, StrLits, Depth

VARIABLES t, todo      \* prefix emitted so far; stack of open holes: <<allowed leaf kinds or "any", depth budget>>
vars == <<t, todo>>
Init == t = <<>> /\ todo = << <<"any", Depth>> >>

Hole == Head(todo)
Leaf(k, p) == /\ todo # <<>> /\ Hole[1] \in {"any", k}
              /\ t' = Append(t, <<k, p>>) /\ todo' = Tail(todo)
NodeP(k, payload, kids) ==
                 /\ todo # <<>> /\ Hole[1] = "any" /\ Hole[2] > 0
                 /\ t' = Append(t, <<k, payload>>)
                 /\ todo' = [i \in 1..Len(kids) |-> <<kids[i], Hole[2] - 1>>] \o Tail(todo)
Node(k, kids) == NodeP(k, "", kids)
Next == \/ \E l \in IntLits : Leaf("int", l)
        \/ \E f \in FloatLits : Leaf("float", f)
        \/ \E s \in StrLits : Leaf("str", s)
        \/ \E b \in {"True", "False"} : Leaf("bool", b)
        \/ Leaf("none", "None")
        \/ Node("ilist", <<"int", "int">>) \/ Node("slist", <<"str", "str">>)
        \/ Node("tuple", <<"any", "any">>) \/ Node("record", <<"any", "any">>) \/ \E key \in StrLits : NodeP("dict", key, <<"any">>)      \* the key is the payload
Spec == Init /\ [][Next]_vars
Complete == todo = <<>>
Emit == Complete => PrintT(<<"J", ToJson([t |-> t])>>)
=============================================================================
