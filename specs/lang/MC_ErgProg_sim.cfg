SPECIFICATION Spec
CONSTANTS
  IntLits <- IS
  FloatLits <- FQ
  StrLits <- SQ
  MaxStmts = 14
  Templates <- AllT
  MaxPrints = 5
INVARIANT Emit
