SPECIFICATION Spec
CONSTANTS
  IntLits <- IQ
  FloatLits <- NoF
  StrLits <- NoS
  MaxStmts = 4
  Templates <- GridT
  MaxPrints = 1
CONSTRAINT PairShape
INVARIANT Emit
