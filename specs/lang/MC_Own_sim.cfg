SPECIFICATION Spec
CONSTANTS
  MaxStmts = 10
  MaxVars = 5
  Scopes <- AllScopes
INVARIANT Emit
