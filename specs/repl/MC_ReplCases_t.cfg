SPECIFICATION Spec
CONSTANTS
  MaxMsgs = 3
  MaxSched = 2
  LenClasses <- L8
INVARIANT Emit
