SPECIFICATION Spec
CONSTANTS
  FieldMax = 3
  MaxLen = 7
  NMsg = 2
  Sender = "saturate"
  ShortReads = FALSE
INVARIANT InStep
INVARIANT SenderAlive
INVARIANT NoDesync
