---- MODULE MC_ReplCases ----
EXTENDS ReplCases
L8 == 0..7
L5 == {0, 1, 3, 4, 7}
====
