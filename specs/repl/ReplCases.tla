------------------------------ MODULE ReplCases ------------------------------
(***************************************************************************)
(* C25, replay cases.  ReplFraming.tla verifies the protocol on a          *)
(* scaled-down size field for *every* split of the byte stream; this       *)
(* module derives the cases replayed on the real framing code: sessions of *)
(* up to MaxMsgs messages whose lengths are drawn from the classes         *)
(* 0..2*FieldMax+1 of the small-scope model (concretised as                *)
(* q*65535 + {0, 1, 65534}), and a cyclic schedule of read-size classes    *)
(* for the receiving side.  For the session level a message length class   *)
(* is the size of an input's source or of its printed output.              *)
(***************************************************************************)
EXTENDS Integers, Sequences, FiniteSets, TLC, Json

CONSTANTS MaxMsgs, MaxSched, LenClasses
ReadClasses == {"full", "one", "half", "most"}

VARIABLES lens, sched
vars == <<lens, sched>>
Init == lens = <<>> /\ sched = <<>>
AddMsg(l) == /\ sched = <<>> /\ Len(lens) < MaxMsgs /\ lens' = Append(lens, l) /\ UNCHANGED sched
AddRead(c) == /\ lens # <<>> /\ Len(sched) < MaxSched /\ sched' = Append(sched, c) /\ UNCHANGED lens
Next == (\E l \in LenClasses : AddMsg(l)) \/ (\E c \in ReadClasses : AddRead(c))
Spec == Init /\ [][Next]_vars
Emit == (lens # <<>> /\ sched # <<>>) => PrintT(<<"C", ToJson([lens |-> lens, sched |-> sched])>>)
=============================================================================
