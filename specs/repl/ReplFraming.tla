----------------------------- MODULE ReplFraming -----------------------------
(***************************************************************************)
(* C25: REPL results stay in step with inputs; the framing layer decodes   *)
(* every message exactly as sent, however the byte stream is split.        *)
(*                                                                         *)
(* One direction of the client/server channel: a sender frames messages    *)
(* `inst(1) | size(2) | data`, a byte channel, a receiver.  The 16-bit     *)
(* size field is scaled down to FieldMax (small-scope: 3 stands for        *)
(* 65535).                                                                 *)
(*                                                                         *)
(* Layer A (ReplSession): the i-th decoded message is the i-th sent one.   *)
(* Layer B: the wire protocol with its named deviations                    *)
(*   Sender = "saturate" : size := min(len, FieldMax) but all data is sent *)
(*                         (Rust Message::new before the fix)              *)
(*   Sender = "overflow" : len > FieldMax kills the sender                 *)
(*                         (Python to_bytes(2) OverflowError)              *)
(*   Sender = "chunked"  : data is cut into frames of at most FieldMax     *)
(*                         bytes; a frame with size = FieldMax is followed *)
(*                         by a continuation frame (possibly empty)        *)
(*   ShortReads          : recv(n) may return any non-empty prefix of the  *)
(*                         available bytes and the receiver does not loop  *)
(*                         (Python socket.recv before the fix)             *)
(***************************************************************************)
EXTENDS Integers, Sequences, FiniteSets, TLC

CONSTANTS FieldMax, MaxLen, NMsg, Sender, ShortReads

VARIABLES chan,     \* bytes in flight
          sent,     \* lengths of the messages sent so far
          rstate,   \* receiver: "hdr" | "data"
          hdr,      \* header bytes of the frame being decoded
          need,     \* data bytes the receiver still expects for this frame
          acc,      \* data bytes of the current *message* collected so far (across chunks)
          more,     \* the current frame is a full chunk: a continuation frame follows
          got,      \* decoded messages: sequences of data bytes
          dead      \* the sender crashed
vars == <<chan, sent, rstate, hdr, need, acc, more, got, dead>>

Min(a, b) == IF a < b THEN a ELSE b
DataBytes(id, from, to) == [k \in 1..(to - from + 1) |-> <<"D", id, from + k - 1>>]

\* frames for message `id` of length len
RECURSIVE Chunks(_, _, _)
Chunks(id, from, len) ==
  IF len - from + 1 >= FieldMax
  THEN <<<<"I", id>>, <<"S", FieldMax>>>> \o DataBytes(id, from, from + FieldMax - 1) \o Chunks(id, from + FieldMax, len)
  ELSE <<<<"I", id>>, <<"S", len - from + 1>>>> \o DataBytes(id, from, len)
Frame(id, len) ==
  CASE Sender = "saturate" -> <<<<"I", id>>, <<"S", Min(len, FieldMax)>>>> \o DataBytes(id, 1, len)
    [] Sender = "overflow" -> <<<<"I", id>>, <<"S", len>>>> \o DataBytes(id, 1, len)
    [] Sender = "chunked"  -> Chunks(id, 1, len)

Init == /\ chan = <<>> /\ sent = <<>> /\ rstate = "hdr" /\ hdr = <<>> /\ need = 0
        /\ acc = <<>> /\ more = FALSE /\ got = <<>> /\ dead = FALSE

Send == /\ ~dead /\ Len(sent) < NMsg
        /\ \E len \in 0..MaxLen :
             IF Sender = "overflow" /\ len > FieldMax
             THEN dead' = TRUE /\ UNCHANGED <<chan, sent>>
             ELSE /\ sent' = Append(sent, len)
                  /\ chan' = chan \o Frame(Len(sent) + 1, len)
                  /\ UNCHANGED dead
        /\ UNCHANGED <<rstate, hdr, need, acc, more, got>>

\* how many bytes one read of up to n bytes may deliver
Deliveries(n) == IF ShortReads THEN 1..Min(n, Len(chan))
                 ELSE IF Len(chan) >= n THEN {n} ELSE {}     \* read_exact / looping recv blocks

RecvHdr ==
  /\ rstate = "hdr" /\ chan # <<>>
  /\ \E k \in Deliveries(2) :
       LET h == SubSeq(chan, 1, k) IN
       /\ chan' = SubSeq(chan, k + 1, Len(chan))
       /\ hdr' = h
       \* int.from_bytes of whatever arrived: a missing size byte reads as 0
       /\ need' = IF k = 2 /\ h[2][1] = "S" THEN h[2][2] ELSE 0
       /\ more' = (Sender = "chunked" /\ k = 2 /\ h[2][1] = "S" /\ h[2][2] = FieldMax)
       /\ rstate' = "data"
  /\ UNCHANGED <<sent, acc, got, dead>>

Deliver(data) ==   \* the frame is complete: either a chunk of a longer message or its end
  IF more THEN acc' = acc \o data /\ UNCHANGED got
  ELSE got' = Append(got, [hdr |-> hdr, data |-> acc \o data]) /\ acc' = <<>>

RecvData ==
  /\ rstate = "data"
  /\ \/ /\ need = 0 /\ Deliver(<<>>) /\ UNCHANGED chan
     \/ /\ need > 0 /\ chan # <<>>
        /\ \E k \in Deliveries(need) :
             /\ Deliver(SubSeq(chan, 1, k))
             /\ chan' = SubSeq(chan, k + 1, Len(chan))
  /\ rstate' = "hdr" /\ hdr' = <<>> /\ need' = 0
  /\ UNCHANGED <<sent, more, dead>>

Next == Send \/ RecvHdr \/ RecvData
Spec == Init /\ [][Next]_vars

-----------------------------------------------------------------------------
(* Layer A *)
MsgOK(i) == /\ i <= Len(sent)
            /\ Len(got[i].hdr) = 2 /\ got[i].hdr[1][1] = "I"
            /\ Len(got[i].data) = sent[i]
            /\ \A k \in 1..Len(got[i].data) : got[i].data[k] = <<"D", i, k>>
InStep == \A i \in 1..Len(got) : MsgOK(i)
SenderAlive == ~dead
\* the decoder is at a frame boundary whenever the channel is drained
NoDesync == (chan = <<>> /\ rstate = "hdr" /\ acc = <<>>) => Len(got) = Len(sent)
=============================================================================
