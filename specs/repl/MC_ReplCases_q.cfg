SPECIFICATION Spec
CONSTANTS
  MaxMsgs = 2
  MaxSched = 2
  LenClasses <- L5
INVARIANT Emit
