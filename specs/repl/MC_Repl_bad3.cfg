SPECIFICATION Spec
CONSTANTS
  FieldMax = 3
  MaxLen = 7
  NMsg = 2
  Sender = "chunked"
  ShortReads = TRUE
INVARIANT InStep
INVARIANT SenderAlive
INVARIANT NoDesync
