---- MODULE BigInt ----
EXTENDS Integers, Sequences, TLC
B == 10000
\* value: [neg |-> BOOLEAN, mag |-> Seq(0..B-1)] little-endian, no trailing zero limbs, zero = <<>> and neg = FALSE
Zero == [neg |-> FALSE, mag |-> <<>>]
RECURSIVE Trim(_)
Trim(m) == IF m = <<>> THEN m ELSE IF m[Len(m)] = 0 THEN Trim(SubSeq(m, 1, Len(m)-1)) ELSE m
Norm(neg, m) == LET t == Trim(m) IN [neg |-> IF t = <<>> THEN FALSE ELSE neg, mag |-> t]
RECURSIVE MagOfNat(_)
MagOfNat(n) == IF n = 0 THEN <<>> ELSE <<n % B>> \o MagOfNat(n \div B)
FromInt(n) == IF n < 0 THEN Norm(TRUE, MagOfNat(-n)) ELSE Norm(FALSE, MagOfNat(n))
L(m, i) == IF i <= Len(m) THEN m[i] ELSE 0
Max(a, b) == IF a > b THEN a ELSE b
RECURSIVE AddMag(_,_,_,_)
AddMag(a, b, i, c) == IF i > Max(Len(a), Len(b)) THEN (IF c = 0 THEN <<>> ELSE <<c>>)
                      ELSE LET s == L(a,i) + L(b,i) + c IN <<s % B>> \o AddMag(a, b, i+1, s \div B)
RECURSIVE CmpMagFrom(_,_,_)
CmpMagFrom(a, b, i) == IF i = 0 THEN 0 ELSE IF L(a,i) # L(b,i) THEN (IF L(a,i) < L(b,i) THEN -1 ELSE 1) ELSE CmpMagFrom(a, b, i-1)
CmpMag(a, b) == IF Len(a) # Len(b) THEN (IF Len(a) < Len(b) THEN -1 ELSE 1) ELSE CmpMagFrom(a, b, Len(a))
RECURSIVE SubMag(_,_,_,_)   \* requires a >= b
SubMag(a, b, i, br) == IF i > Len(a) THEN <<>>
                       ELSE LET d == L(a,i) - L(b,i) - br IN
                            IF d < 0 THEN <<d + B>> \o SubMag(a, b, i+1, 1) ELSE <<d>> \o SubMag(a, b, i+1, 0)
Neg(x) == Norm(~x.neg, x.mag)
Add(x, y) == IF x.neg = y.neg THEN Norm(x.neg, AddMag(x.mag, y.mag, 1, 0))
             ELSE IF CmpMag(x.mag, y.mag) >= 0 THEN Norm(x.neg, SubMag(x.mag, y.mag, 1, 0))
             ELSE Norm(y.neg, SubMag(y.mag, x.mag, 1, 0))
Sub(x, y) == Add(x, Neg(y))
RECURSIVE MulLimb(_,_,_,_)
MulLimb(a, d, i, c) == IF i > Len(a) THEN (IF c = 0 THEN <<>> ELSE <<c>>)
                       ELSE LET p == a[i] * d + c IN <<p % B>> \o MulLimb(a, d, i+1, p \div B)
RECURSIVE MulMag(_,_,_)
MulMag(a, b, j) == IF j > Len(b) THEN <<>>
                   ELSE AddMag([k \in 1..(j-1) |-> 0] \o MulLimb(a, b[j], 1, 0), MulMag(a, b, j+1), 1, 0)
Mul(x, y) == Norm(x.neg # y.neg, MulMag(x.mag, y.mag, 1))
Cmp(x, y) == IF x.neg # y.neg THEN (IF x.neg THEN -1 ELSE 1)
             ELSE IF x.neg THEN CmpMag(y.mag, x.mag) ELSE CmpMag(x.mag, y.mag)
\* short division of magnitude by 1 <= d < B : returns <<quotient mag, remainder>>
RECURSIVE DivLimb(_,_,_,_)
DivLimb(a, d, i, r) == IF i = 0 THEN <<<<>>, r>>
                       ELSE LET cur == r * B + a[i]
                                rest == DivLimb(a, d, i-1, cur % d)
                            IN << rest[1] \o <<cur \div d>>, rest[2] >>
DivMagSmall(a, d) == LET r == DivLimb(a, d, Len(a), 0) IN <<Trim(r[1]), r[2]>>
\* Python floor division / modulo by a small non-zero integer d (|d| < B)
AbsI(d) == IF d < 0 THEN -d ELSE d
FloorDivSmall(x, d) ==
  LET qr == DivMagSmall(x.mag, AbsI(d))
      negres == x.neg # (d < 0)
  IN IF ~negres \/ qr[2] = 0 THEN Norm(negres, qr[1])
     ELSE Norm(TRUE, AddMag(qr[1], <<1>>, 1, 0))
ModSmall(x, d) == Sub(x, Mul(FloorDivSmall(x, d), FromInt(d)))
Pad4(n) == IF n < 10 THEN "000" \o ToString(n) ELSE IF n < 100 THEN "00" \o ToString(n) ELSE IF n < 1000 THEN "0" \o ToString(n) ELSE ToString(n)
RECURSIVE DecMag(_,_)
DecMag(m, i) == IF i = 0 THEN "" ELSE (IF i = Len(m) THEN ToString(m[i]) ELSE Pad4(m[i])) \o DecMag(m, i-1)
ToDec(x) == IF x.mag = <<>> THEN "0" ELSE (IF x.neg THEN "-" ELSE "") \o DecMag(x.mag, Len(x.mag))
RECURSIVE PowSmall(_,_)
PowSmall(x, n) == IF n = 0 THEN FromInt(1) ELSE Mul(x, PowSmall(x, n-1))
====
