------------------------------- MODULE PyVal -------------------------------
(***************************************************************************)
(* Shared library: Python-semantics values and operators used by the       *)
(* language-level specifications (ConstFold, ErgProg, ...).                *)
(*   [t |-> "int", v |-> BigInt]  [t |-> "bool", b |-> BOOLEAN]            *)
(*   [t |-> "float", m |-> Int, e |-> Nat]   (m / 2^e, m odd or e = 0)     *)
(*   [t |-> "zde"]  ZeroDivisionError        [t |-> "skip"]  outside the   *)
(*   modelled subset                                                       *)
(***************************************************************************)
EXTENDS Integers, Sequences, FiniteSets, TLC, BigInt

P2(n) == PowSmall(FromInt(2), n)
IntOf(s) == CASE s = "m7" -> FromInt(-7) [] s = "m2" -> FromInt(-2) [] s = "m1" -> FromInt(-1)
              [] s = "0" -> FromInt(0) [] s = "1" -> FromInt(1) [] s = "2" -> FromInt(2) [] s = "7" -> FromInt(7)
              [] s = "i31m" -> Sub(P2(31), FromInt(1)) [] s = "i31" -> P2(31) [] s = "mi31" -> Neg(P2(31))
              [] s = "i32" -> P2(32) [] s = "i63m" -> Sub(P2(63), FromInt(1)) [] s = "i63" -> P2(63)
              [] s = "i64" -> P2(64) [] s = "mi63" -> Neg(P2(63))

VInt(v) == [t |-> "int", v |-> v]
VBool(b) == [t |-> "bool", b |-> b]
Skip == [t |-> "skip"]
Zde == [t |-> "zde"]

\* ---- dyadic floats
RECURSIVE Pow2(_)
Pow2(n) == IF n = 0 THEN 1 ELSE 2 * Pow2(n - 1)
RECURSIVE Pow5(_)
Pow5(n) == IF n = 0 THEN 1 ELSE 5 * Pow5(n - 1)
RECURSIVE NormF(_, _)
NormF(m, e) == IF e > 0 /\ m % 2 = 0 THEN NormF(m \div 2, e - 1) ELSE [t |-> "float", m |-> m, e |-> e]
FAdd(x, y) == LET e == Max(x.e, y.e) IN NormF(x.m * Pow2(e - x.e) + y.m * Pow2(e - y.e), e)
FNeg(x) == [x EXCEPT !.m = -x.m]
FMul(x, y) == NormF(x.m * y.m, x.e + y.e)
FCmp(x, y) == LET e == Max(x.e, y.e) a == x.m * Pow2(e - x.e) b == y.m * Pow2(e - y.e)
              IN IF a < b THEN -1 ELSE IF a > b THEN 1 ELSE 0
SmallInt(v) == v.mag = <<>> \/ (Len(v.mag) = 1 /\ v.mag[1] < 100)
ToSmall(v) == IF v.mag = <<>> THEN 0 ELSE IF v.neg THEN -v.mag[1] ELSE v.mag[1]
\* a small integer as a float
FOfInt(v) == [t |-> "float", m |-> ToSmall(v), e |-> 0]
\* n / d for small integers, when the quotient is dyadic with e <= 6
RECURSIVE DivDyadic(_, _, _)
DivDyadic(n, d, e) == IF n % d = 0 THEN NormF(n \div d, e)
                      ELSE IF e >= 6 THEN Skip ELSE DivDyadic(2 * n, d, e + 1)
\* TLA+ \div and % floor for negative numerators only with positive divisors: normalise signs first
TrueDiv(n, d) == IF d = 0 THEN Zde
                 ELSE IF n = 0 /\ d < 0 THEN Skip          \* -0.0: signed zero is outside the dyadic model
                 ELSE LET sn == IF (n < 0) # (d < 0) THEN -1 ELSE 1
                          an == IF n < 0 THEN -n ELSE n
                          ad == IF d < 0 THEN -d ELSE d
                          q == DivDyadic(an, ad, 0)
                      IN IF q.t = "skip" THEN q ELSE [q EXCEPT !.m = sn * q.m]

AsInt(x) == IF x.t = "bool" THEN FromInt(IF x.b THEN 1 ELSE 0) ELSE x.v     \* Python: bool is an int
IsIntLike(x) == x.t \in {"int", "bool"}
AsFloat(x) == IF x.t = "float" THEN x ELSE FOfInt(AsInt(x))
\* unary operators
UVal(op, a) ==
  CASE op = "neg" -> (IF a.t = "float" THEN (IF a.m = 0 THEN Skip ELSE FNeg(a)) ELSE VInt(Neg(AsInt(a))))
    [] op = "not" -> (IF a.t = "bool" THEN VBool(~a.b) ELSE Skip)
Truth(x) == CASE x.t = "bool" -> x.b [] x.t = "int" -> x.v.mag # <<>> [] x.t = "float" -> x.m # 0

ArithOps == {"+", "-", "*", "//", "%", "**", "/"}
CmpOps == {"==", "!=", "<", "<=", ">", ">="}
BoolOps == {"and", "or"}
CmpRes(op, c) == CASE op = "==" -> c = 0 [] op = "!=" -> c # 0 [] op = "<" -> c < 0
                   [] op = "<=" -> c <= 0 [] op = ">" -> c > 0 [] op = ">=" -> c >= 0

Val(op, a, b) ==
  IF op \in BoolOps
  THEN IF a.t = "bool" /\ b.t = "bool"
       THEN VBool(IF op = "and" THEN a.b /\ b.b ELSE a.b \/ b.b) ELSE Skip
  ELSE IF op \in CmpOps
  THEN IF IsIntLike(a) /\ IsIntLike(b) THEN VBool(CmpRes(op, Cmp(AsInt(a), AsInt(b))))
       ELSE IF (a.t = "float" \/ SmallInt(AsInt(a))) /\ (b.t = "float" \/ SmallInt(AsInt(b)))
            THEN VBool(CmpRes(op, FCmp(AsFloat(a), AsFloat(b)))) ELSE Skip
  ELSE IF IsIntLike(a) /\ IsIntLike(b)
  THEN LET x == AsInt(a) y == AsInt(b) IN
       CASE op = "+" -> VInt(Add(x, y))
         [] op = "-" -> VInt(Sub(x, y))
         [] op = "*" -> VInt(Mul(x, y))
         [] op = "//" -> IF y.mag = <<>> THEN Zde ELSE IF SmallInt(y) THEN VInt(FloorDivSmall(x, ToSmall(y))) ELSE Skip
         [] op = "%" -> IF y.mag = <<>> THEN Zde ELSE IF SmallInt(y) THEN VInt(ModSmall(x, ToSmall(y))) ELSE Skip
         [] op = "**" -> IF SmallInt(y) /\ ~y.neg /\ ToSmall(y) <= 7 THEN VInt(PowSmall(x, ToSmall(y))) ELSE Skip
         [] op = "/" -> IF SmallInt(x) /\ SmallInt(y) THEN TrueDiv(ToSmall(x), ToSmall(y)) ELSE Skip
  ELSE \* at least one float
       IF (a.t = "float" \/ SmallInt(AsInt(a))) /\ (b.t = "float" \/ SmallInt(AsInt(b)))
       THEN LET x == AsFloat(a) y == AsFloat(b) IN
            CASE op = "+" -> FAdd(x, y)
              [] op = "-" -> FAdd(x, FNeg(y))
              [] op = "*" -> IF (x.m = 0 \/ y.m = 0) /\ (x.m < 0 \/ y.m < 0) THEN Skip ELSE FMul(x, y)   \* -0.0
              [] op \in {"%", "//"} ->
                   \* bring both to the denominator 2^e: x = p/2^e, y = q/2^e; then x mod y = (p mod q)/2^e
                   \* and floor(x/y) = p div q with Python's integer floor semantics (sign of the divisor)
                   IF y.m = 0 THEN Zde
                   ELSE LET e == IF x.e > y.e THEN x.e ELSE y.e
                            p == x.m * Pow2(e - x.e)
                            q == y.m * Pow2(e - y.e)
                            aq == IF q < 0 THEN -q ELSE q
                            \* TLC's \div and % floor towards minus infinity for a positive divisor
                            qq == IF q > 0 THEN p \div q ELSE (-p) \div aq
                            rr == IF q > 0 THEN p % q ELSE -((-p) % aq)
                        IN IF op = "//" THEN (IF qq = 0 /\ ((p < 0) # (q < 0)) THEN Skip ELSE NormF(qq, 0))
                           ELSE (IF rr = 0 /\ q < 0 THEN Skip ELSE NormF(rr, e))     \* -0.0 results are outside the model
              [] OTHER -> Skip
       ELSE Skip

\* ---- printed forms (Python str())
RECURSIVE PadLeft(_, _)
PadLeft(s, n) == IF Len(s) >= n THEN s ELSE PadLeft("0" \o s, n)   \* Len on strings is supported by TLC
Abs(n) == IF n < 0 THEN -n ELSE n
ReprF(x) == IF x.e = 0 THEN ToString(x.m) \o ".0"
            ELSE LET digits == ToString(Abs(x.m) * Pow5(x.e))
                     padded == PadLeft(digits, x.e + 1)
                     ip == SubSeq(padded, 1, Len(padded) - x.e)
                     fp == SubSeq(padded, Len(padded) - x.e + 1, Len(padded))
                 IN (IF x.m < 0 THEN "-" ELSE "") \o ip \o "." \o fp
Show(x) == CASE x.t = "int" -> ToDec(x.v)
             [] x.t = "bool" -> IF x.b THEN "True" ELSE "False"
             [] x.t = "float" -> ReprF(x)
             [] x.t = "zde" -> "ZeroDivisionError"
             [] x.t = "skip" -> "SKIP"
\* source text of a literal operand (parenthesised when negative)
Lit(x) == LET s == Show(x) IN IF (x.t = "int" /\ x.v.neg) \/ (x.t = "float" /\ x.m < 0) THEN "(" \o s \o ")" ELSE s

=============================================================================
