---- MODULE MC_PathNorm ----
EXTENDS PathNorm
AB == {"a", "b"}
CW == {"x", "y"}
====
