SPECIFICATION Spec
CONSTANTS
  Names <- AB
  MaxLen = 6
  PopOnEmptyIsNoop = FALSE
  CwdNames <- CW
  CwdDepth = 4
INVARIANT RefIdempotent
INVARIANT BIdempotent
INVARIANT BKeepsLeadingParents
INVARIANT Emit
