------------------------------ MODULE PathNorm ------------------------------
(***************************************************************************)
(* C31: module path normalisation.                                         *)
(*                                                                         *)
(* A path is [abs |-> BOOLEAN, comps |-> Seq(Comp)] with components ".",   *)
(* "..", or a name.  The state machine builds paths one component at a     *)
(* time (action Extend), so the reachable states are exactly the paths of  *)
(* at most MaxLen components.                                              *)
(*                                                                         *)
(* Layer A: Resolve(cwd, p) is the file a path denotes in a symlink-free   *)
(* tree when the process is in directory cwd; two paths are the same       *)
(* module iff they resolve alike from every cwd.  RefNorm is the canonical *)
(* representative (leading ".." of a relative path are kept).              *)
(* Layer B: ImplNorm transcribes erg_common::cheap_canonicalize_path.      *)
(***************************************************************************)
EXTENDS Integers, Sequences, FiniteSets, TLC, Json

CONSTANTS Names,       \* named components, e.g. {"a", "b"}
          MaxLen,
          PopOnEmptyIsNoop   \* TRUE = code before the fix: `..` on an empty relative buffer is dropped

Comp == Names \cup {".", ".."}
VARIABLE p
vars == <<p>>

Init == p \in {[abs |-> TRUE, comps |-> <<>>], [abs |-> FALSE, comps |-> <<>>]}
Extend(c) == /\ Len(p.comps) < MaxLen
             /\ p' = [p EXCEPT !.comps = Append(@, c)]
Next == \E c \in Comp : Extend(c)
Spec == Init /\ [][Next]_vars

-----------------------------------------------------------------------------
(* Layer A *)
Front(s) == SubSeq(s, 1, Len(s) - 1)

\* walk from directory `dir` (a sequence of names, <<>> = root)
RECURSIVE Walk(_, _)
Walk(dir, cs) ==
  IF cs = <<>> THEN dir
  ELSE LET c == Head(cs) IN
       IF c = "." THEN Walk(dir, Tail(cs))
       ELSE IF c = ".." THEN Walk(IF dir = <<>> THEN dir ELSE Front(dir), Tail(cs))
       ELSE Walk(Append(dir, c), Tail(cs))
Resolve(cwd, q) == Walk(IF q.abs THEN <<>> ELSE cwd, q.comps)

\* canonical form: for a relative path, k leading ".." then names; for an absolute one, names
RECURSIVE Canon(_, _, _)
Canon(abs, acc, cs) ==
  IF cs = <<>> THEN acc
  ELSE LET c == Head(cs) IN
       IF c = "." THEN Canon(abs, acc, Tail(cs))
       ELSE IF c = ".."
            THEN IF acc # <<>> /\ acc[Len(acc)] # ".." THEN Canon(abs, Front(acc), Tail(cs))
                 ELSE IF abs THEN Canon(abs, acc, Tail(cs))          \* /.. = /
                 ELSE Canon(abs, Append(acc, ".."), Tail(cs))        \* keep leading parents
            ELSE Canon(abs, Append(acc, c), Tail(cs))
RefNorm(q) == [abs |-> q.abs, comps |-> Canon(q.abs, <<>>, q.comps)]

-----------------------------------------------------------------------------
(* Layer B: the component loop of cheap_canonicalize_path *)
RECURSIVE Loop(_, _, _)
Loop(abs, ret, cs) ==
  IF cs = <<>> THEN ret
  ELSE LET c == Head(cs) IN
       IF c = "." THEN Loop(abs, ret, Tail(cs))
       ELSE IF c = ".."
            THEN IF PopOnEmptyIsNoop
                 THEN Loop(abs, IF ret = <<>> THEN ret ELSE Front(ret), Tail(cs))   \* PathBuf::pop
                 ELSE IF ret # <<>> /\ ret[Len(ret)] # ".." THEN Loop(abs, Front(ret), Tail(cs))
                      ELSE IF abs THEN Loop(abs, ret, Tail(cs))
                      ELSE Loop(abs, Append(ret, ".."), Tail(cs))
            ELSE Loop(abs, Append(ret, c), Tail(cs))
ImplNorm(q) == [abs |-> q.abs, comps |-> Loop(q.abs, <<>>, q.comps)]

\* design-level properties of layer B
BIdempotent == ImplNorm(ImplNorm(p)) = ImplNorm(p)
BKeepsLeadingParents == ImplNorm(p) = RefNorm(p)

-----------------------------------------------------------------------------
(* Lemma (checked on a small instance): RefNorm characterises "same file from every cwd" *)
CONSTANT CwdNames, CwdDepth
Cwds == UNION {[1..n -> CwdNames] : n \in 0..CwdDepth}
AllPaths(n) == {[abs |-> a, comps |-> s] : a \in BOOLEAN, s \in UNION {[1..k -> Comp] : k \in 0..n}}
SameFile(q, r) == \A cwd \in Cwds : Resolve(cwd, q) = Resolve(cwd, r)
\* an absolute and a relative path may coincide for one particular cwd only, so they are never "the same"
LemmaAt(n) == \A q, r \in AllPaths(n) : (q.abs = r.abs) => ((RefNorm(q) = RefNorm(r)) <=> SameFile(q, r))
RefIdempotent == RefNorm(RefNorm(p)) = RefNorm(p)

Emit == PrintT(<<"P", ToJson([abs |-> p.abs, comps |-> p.comps, ref |-> RefNorm(p).comps])>>)
=============================================================================
