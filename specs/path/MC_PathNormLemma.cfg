SPECIFICATION Spec
CONSTANTS
  Names <- AB
  MaxLen = 0
  PopOnEmptyIsNoop = FALSE
  CwdNames <- CW
  CwdDepth = 4
INVARIANT Lemma3
