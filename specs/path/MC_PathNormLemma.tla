---- MODULE MC_PathNormLemma ----
EXTENDS PathNorm
AB == {"a", "b"}
CW == {"x", "y"}
Lemma3 == LemmaAt(3)
====
