SPECIFICATION Spec
CONSTANTS
  Names <- AB
  MaxLen = 3
  PopOnEmptyIsNoop = TRUE
  CwdNames <- CW
  CwdDepth = 4
INVARIANT BKeepsLeadingParents
