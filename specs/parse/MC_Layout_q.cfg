SPECIFICATION Spec
CONSTANTS
  Shape <- S4
  MaxRewrites = 3
VIEW view
INVARIANT SigPreserved
INVARIANT Emit
