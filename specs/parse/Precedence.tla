----------------------------- MODULE Precedence -----------------------------
(***************************************************************************)
(* C11: operator expressions parse by the documented precedence table.     *)
(*                                                                         *)
(*   member access > ** > prefix + - ~ > * / // % > + - > << >> > && > ^^  *)
(*   > || > ranges > comparisons > and > or                                *)
(*                                                                         *)
(* binary operators group to the left; a minus sign directly before a      *)
(* numeric literal is part of the literal.                                 *)
(*                                                                         *)
(* The state machine derives token sequences (one action per token kind);  *)
(* RefTree is the reference reading of a complete sequence, computed by    *)
(* precedence climbing from the table above and nothing else.  Trees are   *)
(* strings: (op l r), (u<op> x), (. obj m), (mcall obj m).                 *)
(***************************************************************************)
EXTENDS Integers, Sequences, FiniteSets, TLC, Json

CONSTANTS Bins,        \* set of binary operator symbols to draw from
          MaxBin, MaxPre, MaxParen, MaxPost,
          UseNums      \* whether numeric literals may appear as operands

Prec(op) ==
  CASE op = "**" -> 190
    [] op \in {"*", "/", "//", "%"} -> 170
    [] op \in {"+", "-"} -> 160
    [] op \in {"<<", ">>"} -> 150
    [] op = "&&" -> 140
    [] op = "^^" -> 130
    [] op = "||" -> 120
    [] op \in {"..", "<..", "..<", "<..<"} -> 100
    [] op \in {"<", ">", "<=", ">=", "==", "!=", "in", "notin", "is!", "isnot!"} -> 90
    [] op = "and" -> 80
    [] op = "or" -> 70
PrefixPrec == 180
AllBins == {"**", "*", "/", "//", "%", "+", "-", "<<", ">>", "&&", "^^", "||", "..", "<..", "..<",
            "<..<", "<", ">", "<=", ">=", "==", "!=", "in", "notin", "is!", "isnot!", "and", "or"}
Pres == {"-", "+", "~"}
Ids == <<"a", "b", "c", "d", "e", "f", "g">>

Tok(k, s) == [k |-> k, s |-> s]

VARIABLES toks, expectOperand, open, nbin, npre, nparen, npost, nid
vars == <<toks, expectOperand, open, nbin, npre, nparen, npost, nid>>

Init == /\ toks = <<>> /\ expectOperand = TRUE /\ open = 0
        /\ nbin = 0 /\ npre = 0 /\ nparen = 0 /\ npost = 0 /\ nid = 0

LastK == IF toks = <<>> THEN "none" ELSE toks[Len(toks)].k

PushPre(p) == /\ expectOperand /\ npre < MaxPre
              /\ toks' = Append(toks, Tok("pre", p)) /\ npre' = npre + 1
              /\ UNCHANGED <<expectOperand, open, nbin, nparen, npost, nid>>
PushLP == /\ expectOperand /\ nparen < MaxParen
          /\ toks' = Append(toks, Tok("lp", "(")) /\ open' = open + 1 /\ nparen' = nparen + 1
          /\ UNCHANGED <<expectOperand, nbin, npre, npost, nid>>
PushId == /\ expectOperand /\ nid < Len(Ids)
          /\ toks' = Append(toks, Tok("id", Ids[nid + 1])) /\ nid' = nid + 1
          /\ expectOperand' = FALSE
          /\ UNCHANGED <<open, nbin, npre, nparen, npost>>
PushNum == /\ expectOperand /\ UseNums
           /\ toks' = Append(toks, Tok("num", "2"))
           /\ expectOperand' = FALSE
           /\ UNCHANGED <<open, nbin, npre, nparen, npost, nid>>
PushPost(k) == /\ ~expectOperand /\ npost < MaxPost /\ LastK \in {"id", "rp", "attr", "mcall"}
               /\ toks' = Append(toks, Tok(k, "m")) /\ npost' = npost + 1
               /\ UNCHANGED <<expectOperand, open, nbin, npre, nparen, nid>>
PushRP == /\ ~expectOperand /\ open > 0
          /\ toks' = Append(toks, Tok("rp", ")")) /\ open' = open - 1
          /\ UNCHANGED <<expectOperand, nbin, npre, nparen, npost, nid>>
PushBin(op) == /\ ~expectOperand /\ nbin < MaxBin
               /\ toks' = Append(toks, Tok("bin", op)) /\ nbin' = nbin + 1
               /\ expectOperand' = TRUE
               /\ UNCHANGED <<open, npre, nparen, npost, nid>>

Next == \/ \E p \in Pres : PushPre(p)
        \/ PushLP \/ PushId \/ PushNum \/ PushRP
        \/ \E k \in {"attr", "mcall"} : PushPost(k)
        \/ \E op \in Bins : PushBin(op)
Spec == Init /\ [][Next]_vars

Complete == ~expectOperand /\ open = 0 /\ toks # <<>>

-----------------------------------------------------------------------------
(* Reference reading: precedence climbing.  Each operator returns           *)
(* <<tree, position after the parsed phrase>>.                              *)
K(ts, i) == IF i <= Len(ts) THEN ts[i].k ELSE "eof"
S(ts, i) == ts[i].s

RECURSIVE PExpr(_, _, _), PUnary(_, _), PPostfix(_, _, _), PLoop(_, _, _, _)

\* primary with its postfix chain
PPostfix(ts, tree, i) ==
  IF K(ts, i) = "attr" THEN PPostfix(ts, "(. " \o tree \o " " \o S(ts, i) \o ")", i + 1)
  ELSE IF K(ts, i) = "mcall" THEN PPostfix(ts, "(mcall " \o tree \o " " \o S(ts, i) \o ")", i + 1)
  ELSE <<tree, i>>

PUnary(ts, i) ==
  IF K(ts, i) = "pre"
  THEN IF S(ts, i) = "-" /\ K(ts, i + 1) = "num"
       THEN <<"-" \o S(ts, i + 1), i + 2>>                      \* minus directly before a numeric literal
       ELSE LET r == PExpr(ts, i + 1, PrefixPrec + 1) IN      \* operand: anything binding tighter than the prefix
            <<"(u" \o S(ts, i) \o " " \o r[1] \o ")", r[2]>>
  ELSE IF K(ts, i) = "lp"
       THEN LET r == PExpr(ts, i + 1, 0) IN PPostfix(ts, r[1], r[2] + 1)   \* skip ")"
       ELSE PPostfix(ts, S(ts, i), i + 1)                                 \* id or num

\* left-associative loop: fold operators of precedence >= minp
PLoop(ts, lhs, i, minp) ==
  IF K(ts, i) = "bin" /\ Prec(S(ts, i)) >= minp
  THEN LET r == PExpr(ts, i + 1, Prec(S(ts, i)) + 1)
       IN PLoop(ts, "(" \o S(ts, i) \o " " \o lhs \o " " \o r[1] \o ")", r[2], minp)
  ELSE <<lhs, i>>

PExpr(ts, i, minp) == LET u == PUnary(ts, i) IN PLoop(ts, u[1], u[2], minp)

RefTree(ts) == PExpr(ts, 1, 0)[1]

-----------------------------------------------------------------------------
(* Layer B: the reading the parser's structure predicts.  Parser::try_reduce_unary calls     *)
(* try_reduce_expr for the operand, i.e. a prefix operator takes the *whole* following       *)
(* expression (up to the closing parenthesis) as its operand.  Everything else as layer A.   *)
RECURSIVE BExpr(_, _, _), BUnary(_, _), BLoop(_, _, _, _)
BUnary(ts, i) ==
  IF K(ts, i) = "pre"
  THEN IF S(ts, i) = "-" /\ K(ts, i + 1) = "num"
       THEN <<"-" \o S(ts, i + 1), i + 2>>
       ELSE LET r == BExpr(ts, i + 1, 0) IN
            <<"(u" \o S(ts, i) \o " " \o r[1] \o ")", r[2]>>
  ELSE IF K(ts, i) = "lp"
       THEN LET r == BExpr(ts, i + 1, 0) IN PPostfix(ts, r[1], r[2] + 1)
       ELSE PPostfix(ts, S(ts, i), i + 1)
BLoop(ts, lhs, i, minp) ==
  IF K(ts, i) = "bin" /\ Prec(S(ts, i)) >= minp
  THEN LET r == BExpr(ts, i + 1, Prec(S(ts, i)) + 1)
       IN BLoop(ts, "(" \o S(ts, i) \o " " \o lhs \o " " \o r[1] \o ")", r[2], minp)
  ELSE <<lhs, i>>
BExpr(ts, i, minp) == LET u == BUnary(ts, i) IN BLoop(ts, u[1], u[2], minp)
ImplTree(ts) == BExpr(ts, 1, 0)[1]

\* sanity of the reference reading itself
ConsumesAll == Complete => PExpr(toks, 1, 0)[2] = Len(toks) + 1

Emit == Complete => PrintT(<<"E", ToJson([toks |-> [i \in 1..Len(toks) |-> <<toks[i].k, toks[i].s>>],
                                          tree |-> RefTree(toks), btree |-> ImplTree(toks)])>>)
=============================================================================
