------------------------------- MODULE Layout -------------------------------
(***************************************************************************)
(* C10: parsing is insensitive to comments and layout.                     *)
(*                                                                         *)
(* A program text is a sequence of physical lines.  A line is              *)
(*   [kind |-> "code" | "blank" | "comment", ind |-> indentation,          *)
(*    id |-> identity of the logical code line (0 for blank/comment),      *)
(*    trail, eolc, cont, paren |-> layout decorations]                     *)
(* Sig(p) is what the parser is entitled to see: the logical code lines in *)
(* order with the indentation of each *taken from code lines only*.        *)
(* The rewrite actions are the layout changes the property lists; each     *)
(* preserves Sig (invariant SigPreserved).  TLC enumerates all rewrite     *)
(* sequences up to MaxRewrites on a small abstract program; every sequence *)
(* is then applied to concrete corpus programs and the real parser must    *)
(* return an equal tree.                                                   *)
(***************************************************************************)
EXTENDS Integers, Sequences, FiniteSets, TLC, Json

CONSTANTS Shape,        \* indentation of the code lines of the base program, e.g. <<0, 4, 4, 0>>
          MaxRewrites

VARIABLES p,            \* current text (sequence of lines)
          hist          \* rewrites applied: [k, site]
vars == <<p, hist>>
view == p

Code(i, ind) == [kind |-> "code", ind |-> ind, id |-> i, trail |-> FALSE, eolc |-> FALSE,
                 cont |-> FALSE, paren |-> FALSE]
Blank == [kind |-> "blank", ind |-> 0, id |-> 0, trail |-> FALSE, eolc |-> FALSE, cont |-> FALSE, paren |-> FALSE]
Comment(ind) == [kind |-> "comment", ind |-> ind, id |-> 0, trail |-> FALSE, eolc |-> FALSE, cont |-> FALSE, paren |-> FALSE]

P0 == [i \in 1..Len(Shape) |-> Code(i, Shape[i])]
InsertAt(q, i, l) == SubSeq(q, 1, i - 1) \o <<l>> \o SubSeq(q, i, Len(q))
RemoveAt(q, i) == SubSeq(q, 1, i - 1) \o SubSeq(q, i + 1, Len(q))
\* the base text already contains one comment line (before code line 2) and one blank line
\* (before code line 3), so that removing layout lines is explored too
P0L == LET a == InsertAt(P0, 3, Blank) IN InsertAt(a, 2, Comment(Shape[2]))
Init == p = P0L /\ hist = <<>>

CodeIdx(q) == {i \in 1..Len(q) : q[i].kind = "code"}
\* the n-th code line of q (1-based), as an index into q
NthCode(q, n) == CHOOSE i \in CodeIdx(q) : Cardinality({j \in CodeIdx(q) : j <= i}) = n
Sig(q) == [n \in 1..Cardinality(CodeIdx(q)) |-> <<q[NthCode(q, n)].id, q[NthCode(q, n)].ind>>]

Log(k, n) == hist' = Append(hist, [k |-> k, site |-> n])

NCode == Len(Shape)
\* n names a logical code line; layout lines are inserted directly before it
InsertBlank(n) == /\ p' = InsertAt(p, NthCode(p, n), Blank) /\ Log("blank", n)
InsertComment(n) == /\ p' = InsertAt(p, NthCode(p, n), Comment(p[NthCode(p, n)].ind)) /\ Log("comment", n)
AddEolComment(n) == /\ ~p[NthCode(p, n)].eolc
                    /\ p' = [p EXCEPT ![NthCode(p, n)].eolc = TRUE] /\ Log("eolc", n)
AddTrailing(n) == /\ ~p[NthCode(p, n)].trail
                  /\ p' = [p EXCEPT ![NthCode(p, n)].trail = TRUE] /\ Log("trail", n)
SplitCont(n) == /\ ~p[NthCode(p, n)].cont
                /\ p' = [p EXCEPT ![NthCode(p, n)].cont = TRUE] /\ Log("cont", n)
WrapParen(n) == /\ ~p[NthCode(p, n)].paren
                /\ p' = [p EXCEPT ![NthCode(p, n)].paren = TRUE] /\ Log("paren", n)
\* inverse rewrites: remove a layout line / decoration added earlier
RemoveLayoutLine(i) == /\ i \in 1..Len(p) /\ p[i].kind # "code"
                       /\ p' = RemoveAt(p, i) /\ Log("unline", i)

Next == /\ Len(hist) < MaxRewrites
        /\ \/ \E n \in 1..NCode : \/ InsertBlank(n) \/ InsertComment(n) \/ AddEolComment(n)
                                  \/ AddTrailing(n) \/ SplitCont(n) \/ WrapParen(n)
           \/ \E i \in 1..Len(p) : RemoveLayoutLine(i)
Spec == Init /\ [][Next]_vars

SigPreserved == Sig(p) = Sig(P0)

\* one record per distinct text reached: the rewrites that produce it
Emit == PrintT(<<"L", ToJson([hist |-> hist, lines |-> [i \in 1..Len(p) |-> <<p[i].kind, p[i].id>>]])>>)
=============================================================================
