---- MODULE MC_Nesting ----
EXTENDS Nesting
K8 == {"paren", "list", "call", "index", "set", "lambda", "block", "interp"}
RQ == {1, 10, 50, 99, 100, 150, 200, 201, 400, 1000}
RT == {1, 2, 5, 10, 50, 90, 99, 100, 101, 120, 150, 199, 200, 201, 250, 400, 700, 1000, 3000}
====
