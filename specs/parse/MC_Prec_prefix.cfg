SPECIFICATION Spec
CONSTANTS
  Bins <- AllBins
  MaxBin = 1
  MaxPre = 2
  MaxParen = 0
  MaxPost = 1
  UseNums = TRUE
INVARIANT ConsumesAll
INVARIANT Emit
