---- MODULE MC_Layout ----
EXTENDS Layout
S4 == <<0, 4, 4, 0>>
S5 == <<0, 4, 8, 4, 0>>
====
