SPECIFICATION Spec
CONSTANTS
  Bins <- Arith
  MaxBin = 3
  MaxPre = 1
  MaxParen = 1
  MaxPost = 0
  UseNums = FALSE
INVARIANT ConsumesAll
INVARIANT Emit
