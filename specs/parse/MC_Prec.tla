---- MODULE MC_Prec ----
EXTENDS Precedence
Reps == {"**", "*", "+", "<<", "&&", "^^", "||", "..", "<", "and", "or"}
Arith == {"**", "*", "-", "<", "and"}
====
