SPECIFICATION Spec
CONSTANTS
  Shape <- S5
  MaxRewrites = 4
VIEW view
INVARIANT SigPreserved
INVARIANT Emit
