SPECIFICATION Spec
CONSTANTS
  Bins <- AllBins
  MaxBin = 2
  MaxPre = 0
  MaxParen = 0
  MaxPost = 0
  UseNums = FALSE
INVARIANT ConsumesAll
INVARIANT Emit
