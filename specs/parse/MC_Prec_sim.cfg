SPECIFICATION Spec
CONSTANTS
  Bins <- AllBins
  MaxBin = 5
  MaxPre = 2
  MaxParen = 2
  MaxPost = 2
  UseNums = TRUE
INVARIANT ConsumesAll
INVARIANT Emit
