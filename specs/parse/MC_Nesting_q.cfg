SPECIFICATION Spec
CONSTANTS
  Kinds <- K8
  MaxDepth = 3
  Ramps <- RQ
  Limit = 200
INVARIANT Emit
