SPECIFICATION Spec
CONSTANTS
  Kinds <- K8
  MaxDepth = 4
  Ramps <- RT
  Limit = 200
INVARIANT Emit
