------------------------------- MODULE Nesting -------------------------------
(***************************************************************************)
(* C09: the parser is total and never exhausts the stack.                  *)
(*                                                                         *)
(* A pushdown generator of nested inputs.  `stack` is the sequence of open *)
(* constructs (outermost first); Open pushes one, Close pops one, Cut      *)
(* stops the input with constructs still open (truncation).  Depth ramps   *)
(* are the behaviours that open the same construct (or two alternating     *)
(* ones) Ramp times.  The specification knows the outcome class of each    *)
(* input: balanced and depth <= Limit must parse without errors; balanced  *)
(* and deeper may be rejected; truncated inputs must be rejected or        *)
(* accepted -- and no input may crash, abort or hang the parser.           *)
(***************************************************************************)
EXTENDS Integers, Sequences, FiniteSets, TLC, Json

CONSTANTS Kinds, MaxDepth, Ramps, Limit

VARIABLES stack, opened, phase, cut
vars == <<stack, opened, phase, cut>>
\* phase "open": still opening; "close": closing; "done"
Init == \/ /\ stack = <<>> /\ opened = <<>> /\ phase = "open" /\ cut = FALSE
        \* ramps: k (and alternating k, k2) repeated n times, generated in one step
        \/ \E k \in Kinds, k2 \in Kinds, n \in Ramps :
             /\ opened = [i \in 1..n |-> IF i % 2 = 1 THEN k ELSE k2]
             /\ stack = <<>> /\ phase = "done" /\ cut \in BOOLEAN

Open(k) == /\ phase = "open" /\ Len(stack) < MaxDepth
           /\ stack' = Append(stack, k) /\ opened' = Append(opened, k) /\ UNCHANGED <<phase, cut>>
StartClose == /\ phase = "open" /\ stack # <<>> /\ phase' = "close" /\ UNCHANGED <<stack, opened, cut>>
Close == /\ phase = "close" /\ stack # <<>> /\ stack' = SubSeq(stack, 1, Len(stack) - 1)
         /\ phase' = (IF Len(stack) = 1 THEN "done" ELSE "close") /\ UNCHANGED <<opened, cut>>
Cut == /\ phase \in {"open", "close"} /\ stack # <<>> /\ phase' = "done" /\ cut' = TRUE /\ UNCHANGED <<stack, opened>>
Next == (\E k \in Kinds : Open(k)) \/ StartClose \/ Close \/ Cut
Spec == Init /\ [][Next]_vars

Depth == Len(opened)
\* what must happen
\* constructs whose arbitrary mutual nesting is certainly well-formed Erg; mixes involving set braces,
\* indented blocks or string interpolation are only required not to crash the parser
Plain == {"paren", "list", "call", "index", "lambda"}
Expected == IF cut THEN "ok-or-error"
            ELSE IF Depth <= Limit /\ \A i \in 1..Depth : opened[i] \in Plain THEN "ok" ELSE "ok-or-error"
\* `stack` is what remains open when the input ends (non-empty only for truncated inputs)
Emit == phase = "done" => PrintT(<<"N", ToJson([opened |-> opened, unclosed |-> IF cut /\ stack = <<>> /\ Depth > MaxDepth THEN Depth ELSE Len(stack),
                                             cut |-> cut, expected |-> Expected])>>)
=============================================================================
