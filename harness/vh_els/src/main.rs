fn main(){println!("vh_els");}
