//! vh_els: drives the real language server (els::Server through molc's FakeClient) in-process.
//!   docsync  (C28): open + incremental change notifications; VFS.read compared with the client's copy
//!   diagsync (C29): edit history + saves on one server vs a fresh server on the final text; last published diagnostics
//!   rename   (C30): textDocument/rename at given positions of a freshly analysed document
mod diagsync;
mod docsync;
mod rename;
mod util;

fn main() {
    let args: Vec<String> = std::env::args().collect();
    let sub = args.get(1).map(|s| s.as_str()).unwrap_or("");
    let rest: Vec<String> = args.iter().skip(2).cloned().collect();
    util::install_quiet_panic_hook();
    let code = match sub {
        "docsync" => docsync::run(&rest),
        "diagsync" => diagsync::run(&rest),
        "rename" => rename::run(&rest),
        _ => {
            eprintln!("unknown sub-command {sub:?}");
            2
        }
    };
    std::process::exit(code);
}
