use std::io::{self, BufRead, Write};
use std::panic::{self, AssertUnwindSafe};
use std::sync::Mutex;

use serde_json::Value;

static LAST_PANIC: Mutex<Option<String>> = Mutex::new(None);

pub fn install_quiet_panic_hook() {
    panic::set_hook(Box::new(|info| {
        let loc = info
            .location()
            .map(|l| format!("{}:{}", l.file(), l.line()))
            .unwrap_or_default();
        let msg = if let Some(s) = info.payload().downcast_ref::<&str>() {
            s.to_string()
        } else if let Some(s) = info.payload().downcast_ref::<String>() {
            s.clone()
        } else {
            "<non-string panic>".to_string()
        };
        if let Ok(mut g) = LAST_PANIC.lock() {
            *g = Some(format!("{loc}: {msg}"));
        }
    }));
}

/// Run `f`; a panic of the code under test becomes Err(location: message).
pub fn guarded<T>(f: impl FnOnce() -> T) -> Result<T, String> {
    match panic::catch_unwind(AssertUnwindSafe(f)) {
        Ok(v) => Ok(v),
        Err(_) => {
            let m = LAST_PANIC
                .lock()
                .ok()
                .and_then(|mut g| g.take())
                .unwrap_or_else(|| "<panic>".to_string());
            Err(m)
        }
    }
}

/// Strip line numbers etc. that are not stable: keep "file:line: first 80 chars".
pub fn panic_site(msg: &str) -> String {
    let mut s: String = msg.chars().take(160).collect();
    if let Some(i) = s.find('\n') {
        s.truncate(i);
    }
    s
}

pub fn read_records() -> impl Iterator<Item = Value> {
    let stdin = io::stdin();
    let lines: Vec<String> = stdin.lock().lines().map_while(Result::ok).collect();
    lines.into_iter().filter_map(|l| {
        let t = l.trim();
        if t.is_empty() {
            None
        } else {
            match serde_json::from_str::<Value>(t) {
                Ok(v) => Some(v),
                Err(e) => {
                    eprintln!("bad input record: {e}: {t}");
                    std::process::exit(2);
                }
            }
        }
    })
}

pub struct Out {
    out: io::BufWriter<io::Stdout>,
}

impl Out {
    pub fn new() -> Self {
        Out {
            out: io::BufWriter::new(io::stdout()),
        }
    }
    pub fn emit(&mut self, v: &Value) {
        let _ = writeln!(self.out, "{}", v);
    }
    pub fn flush(&mut self) {
        let _ = self.out.flush();
    }
}

pub fn str_set(v: &Value) -> std::collections::BTreeSet<String> {
    v.as_array()
        .map(|a| {
            a.iter()
                .filter_map(|x| x.as_str().map(|s| s.to_string()))
                .collect()
        })
        .unwrap_or_default()
}
