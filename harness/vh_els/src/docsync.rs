//! C28: {"dir": scratch dir, "init": text, "notifs": [[[sl, sc, el, ec, text], ...], ...], "expect": [text, ...]}
//! One didOpen, then one didChange per entry of `notifs` (each with its list of changes); after
//! every notification VFS.read(path) must equal the corresponding entry of `expect`.
use std::path::PathBuf;

use els::Server;
use erg_common::vfs::VFS;
use lsp_types::notification::{DidChangeTextDocument, DidOpenTextDocument};
use lsp_types::{
    DidChangeTextDocumentParams, DidOpenTextDocumentParams, Position, Range, TextDocumentContentChangeEvent,
    TextDocumentItem, Url, VersionedTextDocumentIdentifier,
};
use molc::FakeClient;
use serde_json::{json, Value};

use crate::util::{guarded, panic_site, read_records, Out};

fn new_client() -> Result<FakeClient<Server>, String> {
    let mut client = Server::bind_fake_client();
    client.request_initialize().map_err(|e| e.to_string())?;
    client.notify_initialized().map_err(|e| e.to_string())?;
    Ok(client)
}

pub fn run(args: &[String]) -> i32 {
    let dir = PathBuf::from(args.first().cloned().unwrap_or_else(|| "/tmp/vh_els_docsync".into()));
    let _ = std::fs::create_dir_all(&dir);
    let mut out = Out::new();
    let mut client = match new_client() {
        Ok(c) => c,
        Err(e) => {
            eprintln!("cannot start the language server: {e}");
            return 2;
        }
    };
    let mut ver = 1;
    let (mut records, mut notifs_sent, mut mismatches, mut restarts) = (0u64, 0u64, 0u64, 0u64);
    for (n, rec) in read_records().enumerate() {
        records += 1;
        // a fresh document per record (the file need not exist: the text is in the notification)
        let path = dir.join(format!("doc_{}_{}.er", std::process::id(), n));
        let uri = Url::from_file_path(&path).unwrap();
        let init = rec["init"].as_str().unwrap_or("").to_string();
        let notifs = rec["notifs"].as_array().cloned().unwrap_or_default();
        let expect = rec["expect"].as_array().cloned().unwrap_or_default();
        let mut found: Option<Value> = None;
        let res = guarded(|| {
            ver += 1;
            client
                .notify::<DidOpenTextDocument>(DidOpenTextDocumentParams {
                    text_document: TextDocumentItem::new(uri.clone(), "erg".to_string(), ver, init.clone()),
                })
                .map_err(|e| e.to_string())?;
            match VFS.read(&path) {
                Ok(s) if s == init => {}
                other => return Ok(Some(json!({"kind":"open-mismatch","expected":init,"observed":format!("{other:?}")}))),
            }
            for (k, notif) in notifs.iter().enumerate() {
                let changes: Vec<TextDocumentContentChangeEvent> = notif
                    .as_array()
                    .cloned()
                    .unwrap_or_default()
                    .iter()
                    .map(|c| TextDocumentContentChangeEvent {
                        range: Some(Range::new(
                            Position::new(c[0].as_u64().unwrap_or(0) as u32, c[1].as_u64().unwrap_or(0) as u32),
                            Position::new(c[2].as_u64().unwrap_or(0) as u32, c[3].as_u64().unwrap_or(0) as u32),
                        )),
                        range_length: None,
                        text: c[4].as_str().unwrap_or("").to_string(),
                    })
                    .collect();
                ver += 1;
                notifs_sent += 1;
                client
                    .notify::<DidChangeTextDocument>(DidChangeTextDocumentParams {
                        text_document: VersionedTextDocumentIdentifier::new(uri.clone(), ver),
                        content_changes: changes,
                    })
                    .map_err(|e| e.to_string())?;
                let exp = expect.get(k).and_then(|v| v.as_str()).unwrap_or("");
                match VFS.read(&path) {
                    Ok(s) if s == exp => {}
                    Ok(s) => return Ok(Some(json!({"kind":"text-mismatch","step":k,"expected":exp,"observed":s}))),
                    Err(e) => return Ok(Some(json!({"kind":"text-unreadable","step":k,"error":e.to_string()}))),
                }
            }
            Ok::<Option<Value>, String>(None)
        });
        match res {
            Ok(Ok(f)) => found = f,
            Ok(Err(e)) => found = Some(json!({"kind":"server-error","error":e})),
            Err(p) => {
                found = Some(json!({"kind":"server-panic","site":panic_site(&p)}));
                // the server's shared state may be poisoned: start a new one for the next record
                match new_client() {
                    Ok(c) => {
                        client = c;
                        restarts += 1;
                    }
                    Err(e) => {
                        eprintln!("cannot restart the language server: {e}");
                        return 2;
                    }
                }
            }
        }
        if let Some(mut f) = found {
            mismatches += 1;
            f["i"] = json!(n);
            out.emit(&f);
        }
    }
    out.emit(&json!({"summary":{"records":records,"notifications":notifs_sent,"mismatches":mismatches,"restarts":restarts}}));
    out.flush();
    // analysis threads may still be running; do not wait for them
    std::process::exit(0);
}
