//! C29: {"init": text, "notifs": [[[sl, sc, el, ec, text], ...], ...], "final": text}
//! Server A: the document is opened with `init`, then for every notification didChange (with its list of
//! changes) followed by didSave.  Server B (fresh): a document with the text `final` is opened.
//! didOpen/didSave analyse and publish synchronously inside dispatch; a request (foldingRange) is used as a
//! barrier so that everything published so far is in `client.responses`; the server's background thread
//! re-checks changed documents every 500 ms, so the client waits until two consecutive barriers 700 ms apart
//! bring no new publishDiagnostics for the document.  Output: the last published diagnostics of A and of B.
use std::path::{Path, PathBuf};
use std::time::Duration;

use els::Server;
use lsp_types::notification::DidChangeTextDocument;
use lsp_types::{
    DidChangeTextDocumentParams, Position, Range, TextDocumentContentChangeEvent, Url, VersionedTextDocumentIdentifier,
};
use molc::FakeClient;
use serde_json::{json, Value};

use crate::util::{guarded, panic_site, read_records, Out};

fn new_client() -> Result<FakeClient<Server>, String> {
    let mut client = Server::bind_fake_client();
    client.request_initialize().map_err(|e| e.to_string())?;
    client.notify_initialized().map_err(|e| e.to_string())?;
    Ok(client)
}

/// all publishDiagnostics for `uri` received so far, in order
fn published(client: &FakeClient<Server>, uri: &Url) -> Vec<Value> {
    client
        .responses
        .iter()
        .filter(|m| m.get("method").is_some_and(|v| v == "textDocument/publishDiagnostics"))
        .filter(|m| m["params"]["uri"].as_str().is_some_and(|u| Url::parse(u).map(|u| u.path() == uri.path()).unwrap_or(false)))
        .map(|m| m["params"]["diagnostics"].clone())
        .collect()
}

fn barrier(client: &mut FakeClient<Server>, uri: &Url) -> Result<(), String> {
    client.request_folding_range(uri.clone()).map(|_| ()).map_err(|e| e.to_string())
}

/// wait until the set of published diagnostics for `uri` is stable; returns the last one
fn settle(client: &mut FakeClient<Server>, uri: &Url) -> Result<(Value, usize), String> {
    barrier(client, uri)?;
    let mut n = published(client, uri).len();
    let mut stable = 0;
    for _ in 0..20 {
        std::thread::sleep(Duration::from_millis(700));
        barrier(client, uri)?;
        let m = published(client, uri).len();
        if m == n {
            stable += 1;
            if stable >= 2 {
                break;
            }
        } else {
            stable = 0;
            n = m;
        }
    }
    let all = published(client, uri);
    Ok((all.last().cloned().unwrap_or(Value::Null), all.len()))
}

fn norm(diags: &Value) -> Value {
    let mut out: Vec<Value> = diags
        .as_array()
        .cloned()
        .unwrap_or_default()
        .iter()
        .map(|d| {
            let r = &d["range"];
            let msg = d["message"].as_str().unwrap_or("").lines().next().unwrap_or("").to_string();
            json!([r["start"]["line"], r["start"]["character"], r["end"]["line"], r["end"]["character"], d["severity"], msg])
        })
        .collect();
    out.sort_by_key(|v| v.to_string());
    Value::Array(out)
}

fn open_doc(client: &mut FakeClient<Server>, path: &Path, text: &str) -> Result<Url, String> {
    std::fs::write(path, text).map_err(|e| e.to_string())?;
    client.notify_open(path.to_str().unwrap()).map_err(|e| e.to_string())?;
    Ok(Url::from_file_path(path).unwrap())
}

pub fn run(args: &[String]) -> i32 {
    let dir = PathBuf::from(args.first().cloned().unwrap_or_else(|| "/tmp/vh_els_diag".into()));
    let _ = std::fs::create_dir_all(&dir);
    let mut out = Out::new();
    let mut records = 0u64;
    for (n, rec) in read_records().enumerate() {
        records += 1;
        let init = rec["init"].as_str().unwrap_or("").to_string();
        let fin = rec["final"].as_str().unwrap_or("").to_string();
        let notifs = rec["notifs"].as_array().cloned().unwrap_or_default();
        // each record gets its own pair of servers and its own sub-directory (the server analyses its workspace)
        let da = dir.join(format!("a_{}_{}", std::process::id(), n));
        let db = dir.join(format!("b_{}_{}", std::process::id(), n));
        let _ = std::fs::create_dir_all(&da);
        let _ = std::fs::create_dir_all(&db);
        let res = guarded(|| {
            let mut a = new_client()?;
            let pa = da.join("doc.er");
            let ua = open_doc(&mut a, &pa, &init)?;
            settle(&mut a, &ua)?;
            let mut ver = 2;
            for notif in notifs.iter() {
                let changes: Vec<TextDocumentContentChangeEvent> = notif
                    .as_array()
                    .cloned()
                    .unwrap_or_default()
                    .iter()
                    .map(|c| TextDocumentContentChangeEvent {
                        range: Some(Range::new(
                            Position::new(c[0].as_u64().unwrap_or(0) as u32, c[1].as_u64().unwrap_or(0) as u32),
                            Position::new(c[2].as_u64().unwrap_or(0) as u32, c[3].as_u64().unwrap_or(0) as u32),
                        )),
                        range_length: None,
                        text: c[4].as_str().unwrap_or("").to_string(),
                    })
                    .collect();
                ver += 1;
                a.notify::<DidChangeTextDocument>(DidChangeTextDocumentParams {
                    text_document: VersionedTextDocumentIdentifier::new(ua.clone(), ver),
                    content_changes: changes,
                })
                .map_err(|e| e.to_string())?;
                a.notify_save(ua.clone()).map_err(|e| e.to_string())?;
                barrier(&mut a, &ua)?;
            }
            let (inc, n_inc) = settle(&mut a, &ua)?;
            let text_a = erg_common::vfs::VFS.read(&pa).unwrap_or_default();
            let mut b = new_client()?;
            let pb = db.join("doc.er");
            let ub = open_doc(&mut b, &pb, &fin)?;
            let (fresh, n_fresh) = settle(&mut b, &ub)?;
            Ok::<Value, String>(json!({"inc": norm(&inc), "fresh": norm(&fresh), "published_inc": n_inc, "published_fresh": n_fresh,
                                       "server_text_is_final": text_a == fin}))
        });
        let _ = std::fs::remove_dir_all(&da);
        let _ = std::fs::remove_dir_all(&db);
        match res {
            Ok(Ok(mut v)) => {
                v["i"] = json!(n);
                out.emit(&v);
            }
            Ok(Err(e)) => out.emit(&json!({"i": n, "error": e})),
            Err(p) => out.emit(&json!({"i": n, "panic": panic_site(&p)})),
        }
        out.flush();
    }
    out.emit(&json!({"summary": {"records": records}}));
    out.flush();
    std::process::exit(0);
}
