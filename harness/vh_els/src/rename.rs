//! C30: {"dir-less record": {"src": text, "queries": [[line, col], ...], "new": name}}
//! The source is written to <dir>/ren_<pid>_<n>.er, opened, analysed (first publishDiagnostics
//! awaited), then one textDocument/rename request per query position.  Output per record:
//! {"i": n, "answers": [{"q": [line, col], "edits": [[sl, sc, el, ec, text], ...] | null, "other_files": k}]}
use std::path::PathBuf;

use els::Server;
use lsp_types::Url;
use molc::FakeClient;
use serde_json::{json, Value};

use crate::util::{guarded, panic_site, read_records, Out};

fn new_client() -> Result<FakeClient<Server>, String> {
    let mut client = Server::bind_fake_client();
    client.request_initialize().map_err(|e| e.to_string())?;
    client.notify_initialized().map_err(|e| e.to_string())?;
    Ok(client)
}

pub fn run(args: &[String]) -> i32 {
    let dir = PathBuf::from(args.first().cloned().unwrap_or_else(|| "/tmp/vh_els_rename".into()));
    let _ = std::fs::create_dir_all(&dir);
    let mut out = Out::new();
    let mut client = match new_client() {
        Ok(c) => c,
        Err(e) => {
            eprintln!("cannot start the language server: {e}");
            return 2;
        }
    };
    let (mut records, mut restarts) = (0u64, 0u64);
    for (n, rec) in read_records().enumerate() {
        records += 1;
        let src = rec["src"].as_str().unwrap_or("").to_string();
        let new_name = rec["new"].as_str().unwrap_or("zz9").to_string();
        let queries = rec["queries"].as_array().cloned().unwrap_or_default();
        let mut paths = vec![];
        let res = guarded(|| {
            let mut answers = vec![];
            // one freshly opened and analysed copy of the document per request: answering a rename request
            // changes the server's own view of the file
            for (k, q) in queries.iter().enumerate() {
                let path = dir.join(format!("ren_{}_{}_{}.er", std::process::id(), n, k));
                std::fs::write(&path, &src).map_err(|e| e.to_string())?;
                paths.push(path.clone());
                let uri = Url::from_file_path(&path).unwrap();
                client.notify_open(path.to_str().unwrap()).map_err(|e| e.to_string())?;
                client.wait_diagnostics().map_err(|e| e.to_string())?;
                let (l, c) = (q[0].as_u64().unwrap_or(0) as u32, q[1].as_u64().unwrap_or(0) as u32);
                let edit = client.request_rename(uri.clone(), l, c, &new_name).map_err(|e| e.to_string())?;
                match edit {
                    None => answers.push(json!({"q": q, "edits": Value::Null})),
                    Some(we) => {
                        let mut mine = vec![];
                        let mut other = 0;
                        for (u, edits) in we.changes.unwrap_or_default() {
                            if u.path() == uri.path() {
                                for e in edits {
                                    mine.push(json!([e.range.start.line, e.range.start.character, e.range.end.line, e.range.end.character, e.new_text]));
                                }
                            } else {
                                other += edits.len();
                            }
                        }
                        answers.push(json!({"q": q, "edits": mine, "other_files": other}));
                    }
                }
                let _ = client.notify_close(uri);
            }
            Ok::<Vec<Value>, String>(answers)
        });
        for p in paths.iter() {
            let _ = std::fs::remove_file(p);
        }
        match res {
            Ok(Ok(a)) => out.emit(&json!({"i": n, "answers": a})),
            Ok(Err(e)) => out.emit(&json!({"i": n, "error": e})),
            Err(p) => {
                out.emit(&json!({"i": n, "panic": panic_site(&p)}));
                match new_client() {
                    Ok(c) => {
                        client = c;
                        restarts += 1;
                    }
                    Err(e) => {
                        eprintln!("cannot restart the language server: {e}");
                        return 2;
                    }
                }
            }
        }
    }
    out.emit(&json!({"summary": {"records": records, "restarts": restarts}}));
    out.flush();
    std::process::exit(0);
}
