//! C32 / C03: refinement predicates.
//!
//! Input: one JSON line {"mode": "c32"|"c03", "lo": int, "hi": int,
//!                       "trees": [{"t": [[op, c], ...] (prefix form), "den": [ints]}, ...]}
//! c32: each tree is rebuilt with the real constructors Predicate::{eq,ne,ge,gt,le,lt,and,or,
//!      invert}; the resulting data structure is evaluated at every point of lo..hi by the small
//!      structural evaluator below (the only trusted code) and compared with `den`.
//! c03: every ordered pair (P, Q) is wrapped as {I: Int | P} / {I: Int | Q} and
//!      Context::subtype_of is asked; acceptance while den(P) is not a subset of den(Q) is
//!      reported.
use erg_common::config::ErgConfig;
use erg_common::Str;
use erg_compiler::context::Context;
use erg_compiler::module::SharedCompilerResource;
use erg_compiler::ty::constructors::refinement;
use erg_compiler::ty::{Predicate, TyParam, Type, ValueObj};
use serde_json::{json, Value};

use crate::util::{guarded, panic_site, read_records, Out};

fn tp(c: i64) -> TyParam {
    if c >= 0 {
        TyParam::Value(ValueObj::Nat(c as u64))
    } else {
        TyParam::Value(ValueObj::Int(c as i32))
    }
}

fn var() -> Str {
    Str::ever("I")
}

/// prefix form -> predicate through the real constructors
fn build(toks: &[Value], pos: &mut usize) -> Predicate {
    let tok = &toks[*pos];
    *pos += 1;
    let op = tok[0].as_str().unwrap_or("");
    let c = tok[1].as_i64().unwrap_or(0);
    match op {
        "eq" => Predicate::eq(var(), tp(c)),
        "ne" => Predicate::ne(var(), tp(c)),
        "ge" => Predicate::ge(var(), tp(c)),
        "gt" => Predicate::gt(var(), tp(c)),
        "le" => Predicate::le(var(), tp(c)),
        "lt" => Predicate::lt(var(), tp(c)),
        "not" => build(toks, pos).invert(),
        "and" => {
            let l = build(toks, pos);
            let r = build(toks, pos);
            Predicate::and(l, r)
        }
        "or" => {
            let l = build(toks, pos);
            let r = build(toks, pos);
            Predicate::or(l, r)
        }
        other => panic!("vh: unknown token {other}"),
    }
}

fn num(t: &TyParam) -> Option<i64> {
    match t {
        TyParam::Value(ValueObj::Int(i)) => Some(*i as i64),
        TyParam::Value(ValueObj::Nat(n)) => Some(*n as i64),
        _ => None,
    }
}

/// Structural meaning of the data structure at the point I = x.
fn eval(p: &Predicate, x: i64) -> Option<bool> {
    match p {
        Predicate::Value(ValueObj::Bool(b)) => Some(*b),
        Predicate::Equal { rhs, .. } => Some(x == num(rhs)?),
        Predicate::NotEqual { rhs, .. } => Some(x != num(rhs)?),
        Predicate::GreaterEqual { rhs, .. } => Some(x >= num(rhs)?),
        Predicate::LessEqual { rhs, .. } => Some(x <= num(rhs)?),
        Predicate::And(l, r) => Some(eval(l, x)? && eval(r, x)?),
        Predicate::Or(ps) => {
            let mut any = false;
            for q in ps.iter() {
                any |= eval(q, x)?;
            }
            Some(any)
        }
        Predicate::Not(q) => Some(!eval(q, x)?),
        _ => None,
    }
}

fn shape(toks: &[Value]) -> String {
    toks.iter()
        .map(|t| t[0].as_str().unwrap_or("?").to_string())
        .collect::<Vec<_>>()
        .join(" ")
}

pub fn run(_args: &[String]) -> i32 {
    let mut out = Out::new();
    for rec in read_records() {
        let mode = rec["mode"].as_str().unwrap_or("c32").to_string();
        let lo = rec["lo"].as_i64().unwrap_or(-5);
        let hi = rec["hi"].as_i64().unwrap_or(5);
        let trees = rec["trees"].as_array().cloned().unwrap_or_default();
        if mode == "c32" {
            let (mut n, mut bad, mut uneval) = (0u64, 0u64, 0u64);
            for tr in trees.iter() {
                n += 1;
                let toks = tr["t"].as_array().cloned().unwrap_or_default();
                let den: Vec<i64> = tr["den"].as_array().map(|a| a.iter().filter_map(|v| v.as_i64()).collect()).unwrap_or_default();
                let r = guarded(|| {
                    let mut pos = 0;
                    let p = build(&toks, &mut pos);
                    let mut got = vec![];
                    for x in lo..=hi {
                        match eval(&p, x) {
                            Some(true) => got.push(x),
                            Some(false) => {}
                            None => return (format!("{p}"), None),
                        }
                    }
                    (format!("{p}"), Some(got))
                });
                match r {
                    Err(p) => {
                        bad += 1;
                        out.emit(&json!({"kind":"panic","t":toks,"shape":shape(&toks),"site":panic_site(&p)}));
                    }
                    Ok((s, None)) => {
                        uneval += 1;
                        out.emit(&json!({"kind":"unevaluable","t":toks,"shape":shape(&toks),"pred":s}));
                    }
                    Ok((s, Some(got))) => {
                        if got != den {
                            bad += 1;
                            out.emit(&json!({"kind":"den-mismatch","t":toks,"shape":shape(&toks),"pred":s,"expected":den,"observed":got}));
                        }
                    }
                }
            }
            out.emit(&json!({"summary":{"trees":n,"mismatches":bad,"unevaluable":uneval}}));
        } else {
            let cfg = ErgConfig::default();
            let shared = SharedCompilerResource::new(cfg.clone());
            let ctx = Context::new_module("<module>", cfg, shared);
            let preds: Vec<Result<(Predicate, Vec<i64>), String>> = trees
                .iter()
                .map(|tr| {
                    let toks = tr["t"].as_array().cloned().unwrap_or_default();
                    let den: Vec<i64> = tr["den"].as_array().map(|a| a.iter().filter_map(|v| v.as_i64()).collect()).unwrap_or_default();
                    guarded(|| {
                        let mut pos = 0;
                        (build(&toks, &mut pos), den)
                    })
                })
                .collect();
            let (mut pairs, mut accepted, mut unsound, mut sound_reject, mut panics) = (0u64, 0u64, 0u64, 0u64, 0u64);
            // rows to examine may be restricted so that several processes share the work
            let from = rec["from"].as_u64().unwrap_or(0) as usize;
            let to = rec["to"].as_u64().map(|v| v as usize).unwrap_or(preds.len());
            for i in from..to.min(preds.len()) {
                let Ok((p, dp)) = &preds[i] else { continue };
                let sub_t = refinement(var(), Type::Int, p.clone());
                for (j, q) in preds.iter().enumerate() {
                    let Ok((q, dq)) = q else { continue };
                    pairs += 1;
                    let sup_t = refinement(var(), Type::Int, q.clone());
                    let truth = dp.iter().all(|x| dq.contains(x));
                    match guarded(|| ctx.subtype_of(&sub_t, &sup_t)) {
                        Err(site) => {
                            panics += 1;
                            out.emit(&json!({"kind":"panic","p":trees[i]["t"],"q":trees[j]["t"],"site":panic_site(&site)}));
                        }
                        Ok(acc) => {
                            if acc {
                                accepted += 1;
                                if !truth {
                                    unsound += 1;
                                    let witness = dp.iter().find(|x| !dq.contains(x)).copied();
                                    out.emit(&json!({"kind":"unsound-accept","p":trees[i]["t"],"q":trees[j]["t"],
                                        "pshape":shape(trees[i]["t"].as_array().unwrap()),"qshape":shape(trees[j]["t"].as_array().unwrap()),
                                        "pp":format!("{p}"),"qq":format!("{q}"),"witness":witness}));
                                }
                            } else if truth {
                                sound_reject += 1;
                            }
                        }
                    }
                }
            }
            out.emit(&json!({"summary":{"pairs":pairs,"accepted":accepted,"unsound":unsound,"incomplete_rejections":sound_reject,"panics":panics}}));
        }
    }
    out.flush();
    0
}
