//! C31: NormalizedPathBuf::new on every path TLC enumerated from PathNorm.tla.
use std::path::PathBuf;

use erg_common::pathutil::NormalizedPathBuf;
use serde_json::json;

use crate::util::{guarded, panic_site, read_records, Out};

pub fn run(_args: &[String]) -> i32 {
    let mut out = Out::new();
    for rec in read_records() {
        let s = rec["s"].as_str().unwrap_or("").to_string();
        let r = guarded(|| {
            let n = NormalizedPathBuf::new(PathBuf::from(&s));
            let nn = NormalizedPathBuf::new(n.to_path_buf());
            let eq = n == nn;
            (n.to_string_lossy().to_string(), nn.to_string_lossy().to_string(), eq)
        });
        match r {
            Ok((n, nn, eq)) => out.emit(&json!({"s": s, "n": n, "nn": nn, "eq": eq})),
            Err(p) => out.emit(&json!({"s": s, "panic": panic_site(&p)})),
        }
    }
    out.flush();
    0
}
