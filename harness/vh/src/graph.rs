//! C21: replay of ModuleGraphRef.tla behaviours on erg_compiler::module::ModuleGraph and of
//! TSort.tla graphs on erg_common::tsort::tsort.
use std::collections::{BTreeMap, BTreeSet};
use std::path::PathBuf;

use erg_common::pathutil::NormalizedPathBuf;
use erg_common::set::Set;
use erg_common::tsort::{tsort, Node, TopoSortErrorKind};
use erg_compiler::module::ModuleGraph;
use serde_json::{json, Value};

use crate::util::{guarded, panic_site, read_records, str_set, Out};

struct Names {
    base: PathBuf,
}

impl Names {
    fn path(&self, name: &str) -> NormalizedPathBuf {
        NormalizedPathBuf::new(self.base.join(format!("{name}.er")))
    }
    fn name(&self, p: &NormalizedPathBuf) -> String {
        p.as_path()
            .file_stem()
            .map(|s| s.to_string_lossy().to_string())
            .unwrap_or_default()
    }
    fn names<'a>(&self, it: impl Iterator<Item = &'a NormalizedPathBuf>) -> BTreeSet<String> {
        it.map(|p| self.name(p)).collect()
    }
}

/// Apply one operation; returns the outcome string in the vocabulary of the specification.
fn apply(g: &mut ModuleGraph, nm: &Names, op: &Value) -> String {
    let a = op["a"].as_str().unwrap_or("");
    let b = op["b"].as_str().unwrap_or("");
    match op["op"].as_str().unwrap_or("") {
        "add" => {
            g.add_node_if_none(&nm.path(a));
            "ok".into()
        }
        "incref" => match g.inc_ref(&nm.path(a), nm.path(b)) {
            Ok(()) => "ok".into(),
            Err(e) if e.is_cycle_detected() => "cycle".into(),
            #[allow(unreachable_patterns)]
            Err(_) => "other-error".into(),
        },
        "remove" => {
            g.remove(&nm.path(a));
            "ok".into()
        }
        "rename" => {
            g.rename_path(&nm.path(a), nm.path(b));
            "ok".into()
        }
        "sort" => match g.sort() {
            Ok(()) => "ok".into(),
            Err(e) => match e.kind {
                TopoSortErrorKind::CyclicReference => "cycle".into(),
                TopoSortErrorKind::KeyNotFound => "dangling".into(),
            },
        },
        other => format!("unknown-op-{other}"),
    }
}

/// Compare every public query with the specification's observation record.
/// Returns (query name, path(s), expected, observed) of the first difference.
fn compare(g: &ModuleGraph, nm: &Names, obs: &Value, universe: &[String]) -> Option<Value> {
    let exp_nodes = str_set(&obs["nodes"]);
    let got_nodes: BTreeSet<String> = g.iter().map(|n| nm.name(&n.id)).collect();
    let n_iter = g.iter().count();
    if got_nodes != exp_nodes || n_iter != exp_nodes.len() {
        return Some(json!({"query":"entries","expected":exp_nodes,"observed":got_nodes,"iter_len":n_iter}));
    }
    for p in universe {
        let pp = nm.path(p);
        let registered = exp_nodes.contains(p);
        // get_node
        let node = g.get_node(&pp);
        if node.is_some() != registered {
            return Some(json!({"query":"get_node","p":p,"expected":registered,"observed":node.is_some()}));
        }
        if let Some(n) = node {
            if nm.name(&n.id) != *p {
                return Some(json!({"query":"get_node.id","p":p,"expected":p,"observed":nm.name(&n.id)}));
            }
        }
        // parents
        let exp_par = str_set(&obs["parents"][p]);
        match g.parents(&pp) {
            Some(s) => {
                let got = nm.names(s.iter());
                if !registered || got != exp_par {
                    return Some(json!({"query":"parents","p":p,"expected":if registered {json!(exp_par)} else {Value::Null},"observed":got}));
                }
            }
            None => {
                if registered {
                    return Some(json!({"query":"parents","p":p,"expected":exp_par,"observed":Value::Null}));
                }
            }
        }
        // children
        let exp_ch = str_set(&obs["children"][p]);
        let got_ch: BTreeSet<String> = g.children(&pp).map(|c| nm.name(&c)).collect();
        if got_ch != exp_ch {
            return Some(json!({"query":"children","p":p,"expected":exp_ch,"observed":got_ch}));
        }
        // ancestors
        let exp_anc = str_set(&obs["anc"][p]);
        let got_anc = nm.names(g.ancestors(&pp).into_iter());
        if got_anc != exp_anc {
            return Some(json!({"query":"ancestors","p":p,"expected":exp_anc,"observed":got_anc}));
        }
        for q in universe {
            let qq = nm.path(q);
            let e1 = registered && exp_par.contains(q);
            let o1 = g.depends_on(&pp, &qq);
            if e1 != o1 {
                return Some(json!({"query":"depends_on","p":p,"q":q,"expected":e1,"observed":o1}));
            }
            let e2 = exp_anc.contains(q);
            let o2 = g.deep_depends_on(&pp, &qq);
            if e2 != o2 {
                return Some(json!({"query":"deep_depends_on","p":p,"q":q,"expected":e2,"observed":o2}));
            }
        }
    }
    None
}

/// After a successful sort every node must come after all nodes it depends on.
fn sorted_ok(g: &ModuleGraph, nm: &Names) -> Option<Value> {
    let order: Vec<String> = g.iter().map(|n| nm.name(&n.id)).collect();
    let pos: BTreeMap<&String, usize> = order.iter().enumerate().map(|(i, n)| (n, i)).collect();
    for n in g.iter() {
        let me = nm.name(&n.id);
        for d in n.depends_on.iter() {
            let dn = nm.name(d);
            match pos.get(&dn) {
                Some(&j) if j < pos[&me] => {}
                _ => return Some(json!({"query":"sort-order","order":order,"node":me,"dep":dn})),
            }
        }
    }
    None
}

pub fn run(args: &[String]) -> i32 {
    let base = PathBuf::from(args.first().cloned().unwrap_or_else(|| "/nonexistent-verif-c21".into()));
    let check_all_steps = args.get(1).map(|s| s == "all-steps").unwrap_or(false);
    let nm = Names { base };
    let mut out = Out::new();
    let (mut records, mut ops, mut mismatches) = (0u64, 0u64, 0u64);
    for rec in read_records() {
        records += 1;
        let hist = rec["hist"].as_array().cloned().unwrap_or_default();
        let universe: Vec<String> = rec["obs"]["parents"]
            .as_object()
            .map(|o| o.keys().cloned().collect())
            .unwrap_or_default();
        let res = guarded(|| {
            let mut g = ModuleGraph::new();
            let mut found: Option<Value> = None;
            for (i, op) in hist.iter().enumerate() {
                let got = apply(&mut g, &nm, op);
                let exp = op["res"].as_str().unwrap_or("");
                if got != exp {
                    found = Some(json!({"kind":"result-mismatch","step":i,"op":op["op"],"expected":exp,"observed":got}));
                    break;
                }
                if op["op"] == "sort" && got == "ok" {
                    if let Some(d) = sorted_ok(&g, &nm) {
                        found = Some(json!({"kind":"sort-order","step":i,"op":"sort","detail":d}));
                        break;
                    }
                }
                // intermediate observations, when the record carries them (simulation mode)
                if let Some(o) = op.get("obs") {
                    if check_all_steps || i + 1 == hist.len() {
                        if let Some(d) = compare(&g, &nm, o, &universe) {
                            found = Some(json!({"kind":"query-mismatch","step":i,"op":op["op"],"detail":d}));
                            break;
                        }
                    }
                }
            }
            if found.is_none() {
                if let Some(d) = compare(&g, &nm, &rec["obs"], &universe) {
                    let last = hist.last().map(|o| o["op"].clone()).unwrap_or(Value::Null);
                    found = Some(json!({"kind":"query-mismatch","step":hist.len().saturating_sub(1),"op":last,"detail":d}));
                }
            }
            found
        });
        ops += hist.len() as u64;
        let found = match res {
            Ok(f) => f,
            Err(p) => Some(json!({"kind":"panic","op":hist.last().map(|o| o["op"].clone()),"detail":{"query":"panic","site":panic_site(&p)}})),
        };
        if let Some(mut f) = found {
            mismatches += 1;
            f["hist"] = Value::Array(hist);
            f["i"] = json!(records - 1);
            out.emit(&f);
        }
    }
    out.emit(&json!({"summary":{"records":records,"ops":ops,"mismatches":mismatches}}));
    out.flush();
    0
}

/// Pattern P2 (implementation -> specification): apply caller-chosen operation sequences to the real
/// ModuleGraph and *record* what it did -- one event per operation with the outcome and every public
/// query projected onto the universe -- for TLC to validate against ModuleGraphRef (TraceGraph.tla).
/// Input: {"ops":[{"op","a","b"}..], "universe":[names]}.  Output: a "reset" event, then one event per op.
pub fn run_record(args: &[String]) -> i32 {
    let base = PathBuf::from(args.first().cloned().unwrap_or_else(|| "/nonexistent-verif-c21".into()));
    let nm = Names { base };
    let mut out = Out::new();
    for (run, rec) in read_records().enumerate() {
        let ops = rec["ops"].as_array().cloned().unwrap_or_default();
        let universe: Vec<String> = rec["universe"].as_array().map(|a| a.iter().filter_map(|x| x.as_str().map(String::from)).collect()).unwrap_or_default();
        out.emit(&json!({"op":"reset","a":"","b":"","res":"ok","run":run,"step":0}));
        let mut g = ModuleGraph::new();
        for (i, op) in ops.iter().enumerate() {
            let r = guarded(AssertUnwindSafeGraph(&mut g, &nm, op, &universe));
            match r {
                Ok(ev) => {
                    let mut ev = ev;
                    ev["run"] = json!(run);
                    ev["step"] = json!(i + 1);
                    out.emit(&ev);
                }
                Err(p) => {
                    out.emit(&json!({"op":"panic","a":op["a"],"b":op["b"],"res":panic_site(&p),"run":run,"step":i + 1,"during":op["op"]}));
                    break;
                }
            }
        }
    }
    out.flush();
    0
}

#[allow(non_snake_case)]
fn AssertUnwindSafeGraph<'a>(g: &'a mut ModuleGraph, nm: &'a Names, op: &'a Value, universe: &'a [String]) -> impl FnOnce() -> Value + 'a {
    move || {
        let res = apply(g, nm, op);
        let mut sort_order_ok = true;
        if op["op"] == "sort" && res == "ok" {
            sort_order_ok = sorted_ok(g, nm).is_none();
        }
        let nodes: BTreeSet<String> = g.iter().map(|n| nm.name(&n.id)).collect();
        let n_iter = g.iter().count();
        let mut parents = serde_json::Map::new();
        let mut anc = serde_json::Map::new();
        let mut children = serde_json::Map::new();
        let mut dep = serde_json::Map::new();
        let mut deep = serde_json::Map::new();
        let mut has = serde_json::Map::new();
        for p in universe {
            let pp = nm.path(p);
            has.insert(p.clone(), json!(g.get_node(&pp).is_some()));
            parents.insert(p.clone(), json!(g.parents(&pp).map(|s| nm.names(s.iter())).unwrap_or_default()));
            anc.insert(p.clone(), json!(nm.names(g.ancestors(&pp).into_iter())));
            let ch: BTreeSet<String> = g.children(&pp).map(|c| nm.name(&c)).collect();
            children.insert(p.clone(), json!(ch));
            let d1: BTreeSet<&String> = universe.iter().filter(|q| g.depends_on(&pp, &nm.path(q))).collect();
            let d2: BTreeSet<&String> = universe.iter().filter(|q| g.deep_depends_on(&pp, &nm.path(q))).collect();
            dep.insert(p.clone(), json!(d1));
            deep.insert(p.clone(), json!(d2));
        }
        json!({"op":op["op"],"a":op["a"],"b":op["b"],"res":res,"sorted_ok":sort_order_ok,
               "nodes":nodes,"n_iter":n_iter,"has":has,"parents":parents,"anc":anc,"children":children,
               "dep":dep,"deep":deep})
    }
}

/// TSort.tla: {"n": ["a","b"], "edges": [["a","b"],...], "exp": "ok"|"cycle"|"dangling", "order": [...]}
pub fn run_tsort(_args: &[String]) -> i32 {
    let mut out = Out::new();
    let (mut records, mut mismatches) = (0u64, 0u64);
    for rec in read_records() {
        records += 1;
        let nodes: Vec<String> = rec["order"].as_array().map(|a| a.iter().filter_map(|x| x.as_str().map(String::from)).collect()).unwrap_or_default();
        let mut deps: BTreeMap<String, Vec<String>> = BTreeMap::new();
        for e in rec["edges"].as_array().cloned().unwrap_or_default() {
            deps.entry(e[0].as_str().unwrap_or("").to_string()).or_default().push(e[1].as_str().unwrap_or("").to_string());
        }
        let exp = rec["exp"].as_str().unwrap_or("").to_string();
        let g: Vec<Node<String, ()>> = nodes
            .iter()
            .map(|n| {
                let s: Set<String> = deps.get(n).cloned().unwrap_or_default().into_iter().collect();
                Node::new(n.clone(), (), s)
            })
            .collect();
        let res = guarded(|| match tsort(g) {
            Ok(sorted) => {
                let order: Vec<String> = sorted.iter().map(|n| n.id.clone()).collect();
                ("ok".to_string(), order)
            }
            Err(e) => (
                match e.kind {
                    TopoSortErrorKind::CyclicReference => "cycle".to_string(),
                    TopoSortErrorKind::KeyNotFound => "dangling".to_string(),
                },
                vec![],
            ),
        });
        let bad = match res {
            Err(p) => Some(json!({"kind":"panic","site":panic_site(&p)})),
            Ok((got, order)) => {
                // when both a cycle and a dangling edge exist either error is a correct report
                let exp_ok = if exp == "cycle-or-dangling" { got == "cycle" || got == "dangling" } else { got == exp };
                if !exp_ok {
                    Some(json!({"kind":"result-mismatch","expected":exp,"observed":got}))
                } else if got == "ok" {
                    let pos: BTreeMap<&String, usize> = order.iter().enumerate().map(|(i, n)| (n, i)).collect();
                    let mut bad = None;
                    if order.len() != nodes.len() || pos.len() != nodes.len() {
                        bad = Some(json!({"kind":"sort-not-permutation","order":order}));
                    } else {
                        for (n, ds) in deps.iter() {
                            for d in ds {
                                if !(pos.get(d).copied().unwrap_or(usize::MAX) < pos.get(n).copied().unwrap_or(0)) {
                                    bad = Some(json!({"kind":"sort-order","order":order,"node":n,"dep":d}));
                                }
                            }
                        }
                    }
                    bad
                } else {
                    None
                }
            }
        };
        if let Some(mut b) = bad {
            mismatches += 1;
            b["rec"] = rec.clone();
            out.emit(&b);
        }
    }
    out.emit(&json!({"summary":{"records":records,"mismatches":mismatches}}));
    out.flush();
    0
}
