//! In-process compiler driver (C22, C23, C24, C05, C07 ...).
//! {"src": "...", "mode": "check"|"compile"|"transpile", "opt": 0..3?}
//!   -> {"ok": bool, "errors": [{"kind","errno","ln","col","ln_end","col_end","msg","rendered_ok"}], "nwarns": n}
//!    | {"panic": site} | {"hang": true}
use std::sync::mpsc;
use std::time::Duration;

use erg_common::config::ErgConfig;
use erg_common::error::{ErrorDisplay, ErrorKind, Location};
use erg_common::io::{Input, Output};
use erg_common::traits::Stream;
use erg_compiler::build_package::PackageBuilder;
use erg_compiler::error::{CompileError, CompileErrors};
use erg_compiler::module::SharedCompilerResource;
use erg_compiler::Compiler;
use serde_json::{json, Value};

use crate::util::{guarded, panic_site, read_records, Out};

fn loc_json(loc: &Location) -> (Value, Value, Value, Value) {
    (
        json!(loc.ln_begin()),
        json!(loc.col_begin()),
        json!(loc.ln_end()),
        json!(loc.col_end()),
    )
}

fn err_json(e: &CompileError, render: bool) -> Value {
    let (ln, col, ln_end, col_end) = loc_json(&e.core.loc);
    let kind: ErrorKind = e.core.kind;
    let mut v = json!({
        "kind": format!("{kind:?}"), "errno": e.core.errno,
        "ln": ln, "col": col, "ln_end": ln_end, "col_end": col_end,
        "msg": e.core.main_message.chars().take(300).collect::<String>(),
        "caused_by": e.caused_by.chars().take(80).collect::<String>(),
        "hints": e.core.sub_messages.iter().flat_map(|s| s.get_msg().iter().cloned().chain(s.get_hint().map(String::from)))
            .collect::<Vec<String>>().join(" | ").chars().take(300).collect::<String>(),
    });
    if render {
        // formatting the diagnostic (with its source excerpt and caret line) must not crash
        match guarded(|| format!("{}", e.show())) {
            Ok(s) => {
                v["rendered_ok"] = json!(true);
                v["rendered"] = json!(s.chars().take(1500).collect::<String>());
            }
            Err(p) => {
                v["rendered_ok"] = json!(false);
                v["render_panic"] = json!(panic_site(&p));
            }
        }
    }
    v
}

fn errs_json(es: &CompileErrors, render: bool) -> Vec<Value> {
    es.iter().map(|e| err_json(e, render)).collect()
}

fn run_one(rec: &Value) -> Value {
    let src = rec["src"].as_str().unwrap_or("").to_string();
    let mode = rec["mode"].as_str().unwrap_or("check").to_string();
    let render = rec["render"].as_bool().unwrap_or(false);
    let opt = rec["opt"].as_u64().unwrap_or(1) as u8;
    let r = guarded(|| {
        // ErgConfig::default() asks the Python interpreter for its version (a subprocess): once
        static BASE: std::sync::OnceLock<ErgConfig> = std::sync::OnceLock::new();
        let base = BASE
            .get_or_init(|| {
                // resolve the target once: otherwise every Compiler::new / dump_as_pyc asks python again
                let mut c = ErgConfig::default();
                if c.target_version.is_none() {
                    c.target_version = erg_common::python_util::env_python_version();
                }
                if c.py_magic_num.is_none() {
                    c.py_magic_num = Some(erg_common::python_util::env_magic_number());
                }
                c
            })
            .clone();
        let mut cfg = ErgConfig {
            input: Input::str(src.clone()),
            output: Output::Null,
            opt_level: opt,
            ..base
        };
        cfg.quiet_repl = true;
        // compile for another interpreter (as `erg --py-command P` does)
        if let Some(py) = rec["py"].as_str() {
            static TARGETS: std::sync::Mutex<Vec<(String, u32, Option<erg_common::python_util::PythonVersion>)>> =
                std::sync::Mutex::new(Vec::new());
            let mut t = TARGETS.lock().unwrap();
            if !t.iter().any(|e| e.0 == py) {
                t.push((
                    py.to_string(),
                    erg_common::python_util::detect_magic_number(py),
                    erg_common::python_util::get_python_version(py),
                ));
            }
            let e = t.iter().find(|e| e.0 == py).unwrap();
            cfg.py_magic_num = Some(e.1);
            cfg.target_version = e.2;
            cfg.py_command = Some(Box::leak(py.to_string().into_boxed_str()));
        }
        match mode.as_str() {
            "transpile" => {
                // `erg transpile [--target json]`: the generated script / document is written to "out"
                if rec["target"].as_str() == Some("json") {
                    cfg.transpile_target = Some(erg_common::config::TranspileTarget::Json);
                }
                let mut t = erg_compiler::Transpiler::new(cfg);
                match t.transpile(src.clone(), "exec") {
                    Ok(art) => {
                        let code = art.object.into_code();
                        if let Some(out) = rec["out"].as_str() {
                            let _ = std::fs::write(out, &code);
                        }
                        json!({"ok": true, "errors": [], "nwarns": art.warns.len(), "code_len": code.len()})
                    }
                    Err(art) => json!({"ok": false, "errors": errs_json(&art.errors, render), "nwarns": art.warns.len()}),
                }
            }
            "compile" => {
                let mut c = Compiler::new(cfg);
                if let Some(pyc) = rec["pyc"].as_str() {
                    // compile and write the .pyc (for the target of the default interpreter)
                    return match c.compile(src.clone(), "exec") {
                        Ok(art) => match art.object.dump_as_pyc(pyc, c.cfg.py_magic_num) {
                            Ok(()) => json!({"ok": true, "errors": [], "nwarns": art.warns.len()}),
                            Err(e) => json!({"ok": false, "errors": [], "dump_error": e.to_string()}),
                        },
                        Err(art) => json!({"ok": false, "errors": errs_json(&art.errors, render), "nwarns": art.warns.len()}),
                    };
                }
                match c.compile(src.clone(), "exec") {
                    Ok(art) => json!({"ok": true, "errors": [], "nwarns": art.warns.len()}),
                    Err(art) => json!({"ok": false, "errors": errs_json(&art.errors, render), "nwarns": art.warns.len()}),
                }
            }
            _ => {
                let shared = SharedCompilerResource::new(cfg.clone());
                let mut b = PackageBuilder::new(cfg, shared);
                match b.build(src.clone(), "exec") {
                    Ok(art) => {
                        let mut v = json!({"ok": true, "errors": [], "nwarns": art.warns.len(),
                                           "warns": errs_json(&art.warns, false)});
                        if rec["hir"].as_bool().unwrap_or(false) {
                            // the typed tree, as `erg --mode typecheck` prints it
                            v["hir"] = json!(format!("{}", art.object));
                        }
                        v
                    }
                    Err(art) => json!({"ok": false, "errors": errs_json(&art.errors, render), "nwarns": art.warns.len()}),
                }
            }
        }
    });
    match r {
        Ok(v) => v,
        Err(p) => json!({"panic": panic_site(&p)}),
    }
}

pub fn run(args: &[String]) -> i32 {
    let timeout_ms: u64 = args.first().and_then(|s| s.parse().ok()).unwrap_or(20000);
    let mut out = Out::new();
    for rec in read_records() {
        let (tx, rx) = mpsc::channel();
        let r2 = rec.clone();
        let _ = std::thread::Builder::new()
            .stack_size(64 * 1024 * 1024)
            .spawn(move || {
                let _ = tx.send(run_one(&r2));
            });
        let mut v = match rx.recv_timeout(Duration::from_millis(timeout_ms)) {
            Ok(v) => v,
            Err(mpsc::RecvTimeoutError::Timeout) => json!({"hang": true}),
            // the thread died without sending: stack overflow aborts the process instead, so
            // this is a panic that escaped catch_unwind
            Err(mpsc::RecvTimeoutError::Disconnected) => json!({"panic": "thread died"}),
        };
        if let Some(id) = rec.get("id") {
            v["id"] = id.clone();
        }
        let hang = v.get("hang").is_some();
        out.emit(&v);
        if hang {
            out.flush();
            std::process::exit(3);
        }
    }
    out.flush();
    0
}
