//! C11 / C10: the real parser (erg_parser::parse::SimpleParser) driven in-process.
//!
//! parse-expr: {"src": "..."} -> {"ok": bool, "sexpr": "...", "nerrs": n} ; the single
//!             top-level expression is rendered as an S-expression in the vocabulary of
//!             Precedence.tla: (op l r), (u<op> x), (. obj name), (call f args..),
//!             (mcall obj name args..), (idx obj i), identifiers and literal texts.
//! parse-eq:   {"a": src, "b": src} -> whether both parse (lexer + parser, before desugaring, because the
//!             desugarer invents names from source positions) and whether the trees are equal
//!             under the crate's own position-insensitive equality.
use erg_parser::ast::{Accessor, Args, Expr, Module, Tuple};
use erg_common::traits::Stream;
use erg_parser::parse::{Parsable, SimpleParser};
use serde_json::{json, Value};

use crate::util::{guarded, panic_site, read_records, Out};

fn args_sexpr(args: &Args, out: &mut String) {
    for a in args.pos_args.iter() {
        out.push(' ');
        out.push_str(&sexpr(&a.expr));
    }
    if let Some(v) = &args.var_args {
        out.push_str(" *");
        out.push_str(&sexpr(&v.expr));
    }
    for k in args.kw_args.iter() {
        out.push_str(&format!(" {}:={}", k.keyword.content, sexpr(&k.expr)));
    }
}

pub fn sexpr(e: &Expr) -> String {
    match e {
        Expr::Literal(l) => l.token.content.to_string(),
        Expr::Accessor(Accessor::Ident(i)) => i.name.inspect().to_string(),
        Expr::Accessor(Accessor::Attr(a)) => format!("(. {} {})", sexpr(&a.obj), a.ident.name.inspect()),
        Expr::Accessor(Accessor::Subscr(s)) => format!("(idx {} {})", sexpr(&s.obj), sexpr(&s.index)),
        Expr::BinOp(b) => format!("({} {} {})", b.op.content, sexpr(&b.args[0]), sexpr(&b.args[1])),
        Expr::UnaryOp(u) => format!("(u{} {})", u.op.content, sexpr(&u.args[0])),
        Expr::Call(c) => {
            let mut s = match &c.attr_name {
                Some(n) => format!("(mcall {} {}", sexpr(&c.obj), n.name.inspect()),
                None => format!("(call {}", sexpr(&c.obj)),
            };
            args_sexpr(&c.args, &mut s);
            s.push(')');
            s
        }
        Expr::Tuple(Tuple::Normal(t)) => {
            let mut s = "(tuple".to_string();
            args_sexpr(&t.elems, &mut s);
            s.push(')');
            s
        }
        other => format!("?{}", other.name()),
    }
}

fn parse(src: &str) -> Result<(Module, usize), usize> {
    match SimpleParser::parse(src.to_string()) {
        Ok(art) => Ok((art.ast, art.warns.len())),
        Err(iart) => Err(iart.errors.len().max(1)),
    }
}

/// lexer + parser only (no desugaring), so that the tree is the parser's own reading
fn parse_raw(src: &str) -> Result<(Module, usize), usize> {
    let ts = match erg_parser::lex::Lexer::from_str(src.to_string()).lex() {
        Ok(ts) => ts,
        Err((_, es)) => return Err(es.len().max(1)),
    };
    match erg_parser::parse::Parser::new(ts).parse() {
        Ok(art) => Ok((art.ast, art.warns.len())),
        Err(iart) => Err(iart.errors.len().max(1)),
    }
}

pub fn run_expr(_args: &[String]) -> i32 {
    let mut out = Out::new();
    for rec in read_records() {
        let src = rec["src"].as_str().unwrap_or("").to_string();
        let r = guarded(|| match parse_raw(&src) {
            Ok((m, _)) => {
                let chunks: Vec<&Expr> = m.iter().collect();
                if chunks.len() == 1 {
                    json!({"ok": true, "sexpr": sexpr(chunks[0])})
                } else {
                    json!({"ok": true, "sexpr": format!("?chunks={}", chunks.len())})
                }
            }
            Err(n) => json!({"ok": false, "nerrs": n}),
        });
        let mut v = match r {
            Ok(v) => v,
            Err(p) => json!({"ok": false, "panic": panic_site(&p)}),
        };
        v["src"] = Value::String(src);
        if let Some(id) = rec.get("id") {
            v["id"] = id.clone();
        }
        out.emit(&v);
    }
    out.flush();
    0
}

pub fn run_eq(_args: &[String]) -> i32 {
    let mut out = Out::new();
    for rec in read_records() {
        let a = rec["a"].as_str().unwrap_or("").to_string();
        let b = rec["b"].as_str().unwrap_or("").to_string();
        let r = guarded(|| {
            let pa = parse_raw(&a);
            let pb = parse_raw(&b);
            // determinism: the same text parsed again gives the same tree
            let pa2 = parse_raw(&a);
            let det = match (&pa, &pa2) {
                (Ok((x, _)), Ok((y, _))) => x == y && format!("{x}") == format!("{y}"),
                (Err(x), Err(y)) => x == y,
                _ => false,
            };
            match (pa, pb) {
                // The tree is compared through its position-free rendering (Display); the crate's
                // `==` compares source locations inside a few node kinds (`C|<: T|.` headers, dict
                // type specifications) and is reported separately for information only.
                (Ok((x, _)), Ok((y, _))) => {
                    json!({"ok_a": true, "ok_b": true, "eq": format!("{x}") == format!("{y}"), "eq_crate": x == y, "det": det})
                }
                (x, y) => json!({"ok_a": x.is_ok(), "ok_b": y.is_ok(), "eq": false, "det": det}),
            }
        });
        let mut v = match r {
            Ok(v) => v,
            Err(p) => json!({"panic": panic_site(&p)}),
        };
        if let Some(id) = rec.get("id") {
            v["id"] = id.clone();
        }
        out.emit(&v);
    }
    out.flush();
    0
}
