//! C08 (and helpers for C10/C24): the real lexer in-process.
//! {"src": "..."} -> {"ok": bool, "toks": [[kind, content, ln_begin, col_begin, ln_end, col_end], ...],
//!                    "nerrs": n} | {"panic": site} | {"hang": true}
use std::sync::mpsc;
use std::time::Duration;

use erg_common::traits::{DequeStream, Locational, Stream};
use erg_parser::lex::Lexer;
use serde_json::{json, Value};

use crate::util::{guarded, panic_site, read_records, Out};

fn lex_one(src: String) -> Value {
    let r = guarded(|| {
        let lexer = Lexer::from_str(src);
        match lexer.lex() {
            Ok(ts) => {
                let toks: Vec<Value> = ts
                    .iter()
                    .map(|t| {
                        let l = t.loc();
                        json!([format!("{:?}", t.kind), t.content.to_string(),
                               l.ln_begin(), l.col_begin(), l.ln_end(), l.col_end()])
                    })
                    .collect();
                json!({"ok": true, "toks": toks})
            }
            Err((ts, errs)) => {
                let toks: Vec<Value> = ts
                    .iter()
                    .map(|t| {
                        let l = t.loc();
                        json!([format!("{:?}", t.kind), t.content.to_string(),
                               l.ln_begin(), l.col_begin(), l.ln_end(), l.col_end()])
                    })
                    .collect();
                json!({"ok": false, "nerrs": errs.len(), "toks": toks})
            }
        }
    });
    match r {
        Ok(v) => v,
        Err(p) => json!({"panic": panic_site(&p)}),
    }
}

pub fn run(args: &[String]) -> i32 {
    let timeout_ms: u64 = args.first().and_then(|s| s.parse().ok()).unwrap_or(5000);
    let mut out = Out::new();
    for rec in read_records() {
        let src = rec["src"].as_str().unwrap_or("").to_string();
        let (tx, rx) = mpsc::channel();
        let s2 = src.clone();
        let _ = std::thread::Builder::new()
            .stack_size(64 * 1024 * 1024)
            .spawn(move || {
                let _ = tx.send(lex_one(s2));
            });
        let mut v = match rx.recv_timeout(Duration::from_millis(timeout_ms)) {
            Ok(v) => v,
            Err(_) => json!({"hang": true}),
        };
        if let Some(id) = rec.get("id") {
            v["id"] = id.clone();
        }
        let hang = v.get("hang").is_some();
        out.emit(&v);
        if hang {
            // the stuck thread cannot be cancelled: stop here, the caller resubmits the rest
            out.flush();
            std::process::exit(3);
        }
    }
    out.flush();
    0
}
