//! C25: the REPL protocol.
//! repl-frame: {"op":"send","msgs":[[inst, text], ...],"out": path}            -> writes the wire bytes the Rust side produces
//!             {"op":"recv","in": path,"n": count,"sched":["full"|"one"|"half"|"most", ...]}
//!                                                                             -> {"msgs":[[inst, text], ...]} | {"error": ..}
//! repl-session: {"inputs": [src, ...]} evaluated by erg::DummyVM (a real Python REPL server) -> {"results": [...]}
use std::io::{Read, Write};

use erg::verif_api::Framing;
use erg::DummyVM;
use serde_json::{json, Value};

use crate::util::{guarded, panic_site, read_records, Out};

/// in-memory duplex: writes are appended; reads deliver according to the schedule
struct Pipe {
    data: Vec<u8>,
    pos: usize,
    sched: Vec<String>,
    calls: usize,
}

impl Read for Pipe {
    fn read(&mut self, buf: &mut [u8]) -> std::io::Result<usize> {
        let avail = self.data.len() - self.pos;
        if avail == 0 || buf.is_empty() {
            return Ok(0);
        }
        let n = buf.len().min(avail);
        let class = if self.sched.is_empty() { "full" } else { self.sched[self.calls % self.sched.len()].as_str() };
        self.calls += 1;
        let k = match class {
            "one" => 1,
            "half" => (n / 2).max(1),
            "most" => n.saturating_sub(1).max(1),
            _ => n,
        };
        buf[..k].copy_from_slice(&self.data[self.pos..self.pos + k]);
        self.pos += k;
        Ok(k)
    }
}

impl Write for Pipe {
    fn write(&mut self, buf: &[u8]) -> std::io::Result<usize> {
        self.data.extend_from_slice(buf);
        Ok(buf.len())
    }
    fn flush(&mut self) -> std::io::Result<()> {
        Ok(())
    }
}

pub fn run_frame(_args: &[String]) -> i32 {
    let mut out = Out::new();
    for rec in read_records() {
        let op = rec["op"].as_str().unwrap_or("").to_string();
        let r = guarded(|| -> Value {
            if op == "send" {
                let mut f = Framing::new(Pipe { data: vec![], pos: 0, sched: vec![], calls: 0 });
                for m in rec["msgs"].as_array().cloned().unwrap_or_default() {
                    let inst = m[0].as_u64().unwrap_or(1) as u8;
                    let text = m[1].as_str().unwrap_or("").as_bytes().to_vec();
                    let data = if text.is_empty() { None } else { Some(text) };
                    if let Err(e) = f.send(inst, data) {
                        return json!({"error": format!("send: {e}")});
                    }
                }
                let bytes = f.inner().data.clone();
                match std::fs::write(rec["out"].as_str().unwrap_or("/nonexistent"), &bytes) {
                    Ok(()) => json!({"ok": true, "nbytes": bytes.len()}),
                    Err(e) => json!({"error": format!("write: {e}")}),
                }
            } else {
                let data = match std::fs::read(rec["in"].as_str().unwrap_or("/nonexistent")) {
                    Ok(d) => d,
                    Err(e) => return json!({"error": format!("read: {e}")}),
                };
                let sched: Vec<String> = rec["sched"].as_array().map(|a| a.iter().filter_map(|x| x.as_str().map(String::from)).collect()).unwrap_or_default();
                let mut f = Framing::new(Pipe { data, pos: 0, sched, calls: 0 });
                let n = rec["n"].as_u64().unwrap_or(0);
                let mut msgs = vec![];
                for _ in 0..n {
                    match f.recv() {
                        Ok((inst, d)) => msgs.push(json!([inst, String::from_utf8_lossy(&d).to_string()])),
                        Err(e) => return json!({"msgs": msgs, "error": format!("recv: {e}")}),
                    }
                }
                let left = { let p = f.inner(); p.data.len() - p.pos };
                json!({"msgs": msgs, "left": left})
            }
        });
        let mut v = match r {
            Ok(v) => v,
            Err(p) => json!({"panic": panic_site(&p)}),
        };
        if let Some(id) = rec.get("id") {
            v["id"] = id.clone();
        }
        out.emit(&v);
    }
    out.flush();
    0
}

pub fn run_session(_args: &[String]) -> i32 {
    let mut out = Out::new();
    for rec in read_records() {
        let inputs: Vec<String> = rec["inputs"].as_array().map(|a| a.iter().filter_map(|x| x.as_str().map(String::from)).collect()).unwrap_or_default();
        // a fresh interpreter (and REPL server process) per session
        let mut vm = DummyVM::default();
        let mut results = vec![];
        for (i, src) in inputs.iter().enumerate() {
            // progress marker first: DummyVM::eval exits the process when the channel breaks
            out.emit(&json!({"id": rec.get("id"), "progress": i}));
            out.flush();
            match guarded(|| vm.eval(src.clone())) {
                Ok(Ok(s)) => results.push(json!({"ok": s})),
                Ok(Err(es)) => results.push(json!({"err": es.len()})),
                Err(p) => {
                    results.push(json!({"panic": panic_site(&p)}));
                    break;
                }
            }
        }
        let mut v = json!({"results": results});
        if let Some(id) = rec.get("id") {
            v["id"] = id.clone();
        }
        out.emit(&v);
        out.flush();
        drop(vm);
    }
    0
}
