//! vh: in-process drivers binding the TLA+ specifications in /verif/specs to the real erg crates.
//! Every sub-command reads NDJSON records on stdin (produced from TLC output by py/verif) and
//! writes NDJSON results on stdout.  Panics of the code under test are data, not tool errors.
mod checkh;
mod graph;
mod lexh;
mod marshalh;
mod parse;
mod pathnorm;
mod pred;
mod subty;
mod replh;
mod util;

fn main() {
    let args: Vec<String> = std::env::args().collect();
    let sub = args.get(1).map(|s| s.as_str()).unwrap_or("");
    let rest: Vec<String> = args.iter().skip(2).cloned().collect();
    // silence panic messages of the code under test; they are captured with catch_unwind
    util::install_quiet_panic_hook();
    let code = match sub {
        "graph" => graph::run(&rest),
        "tsort" => graph::run_tsort(&rest),
        "graph-record" => graph::run_record(&rest),
        "pathnorm" => pathnorm::run(&rest),
        "pred" => pred::run(&rest),
        "subtype" => subty::run(&rest),
        "marshal" => marshalh::run_marshal(&rest),
        "pycread" => marshalh::run_pycread(&rest),
        "repl-frame" => replh::run_frame(&rest),
        "repl-session" => replh::run_session(&rest),
        "check" => checkh::run(&rest),
        "lex" => lexh::run(&rest),
        "parse-expr" => parse::run_expr(&rest),
        "parse-eq" => parse::run_eq(&rest),
        _ => {
            eprintln!("unknown sub-command {sub:?}");
            2
        }
    };
    std::process::exit(code);
}
