//! C15: the real constant serialiser and .pyc reader.
//! marshal: {"v": value} -> {"hex": bytes of ValueObj::into_bytes}    value = {"t":"nat","v":"123"} | {"t":"int","v":"-5"}
//!          | {"t":"float","bits":"<16 hex digits of the IEEE-754 double, big endian>"} | {"t":"str","s":"..."}
//!          | {"t":"bool","b":true} | {"t":"none"} | {"t":"tuple","xs":[...]}
//! pycread: {"path": file} -> {"ok": bool, "err": text} (CodeObj::from_pyc, what `erg --mode read` uses)
use std::sync::Arc;

use erg_common::python_util::PythonVersion;
use erg_compiler::ty::codeobj::CodeObj;
use erg_compiler::ty::ValueObj;
use serde_json::{json, Value};

use crate::util::{guarded, panic_site, read_records, Out};

fn value(v: &Value) -> Option<ValueObj> {
    Some(match v["t"].as_str()? {
        "nat" => ValueObj::Nat(v["v"].as_str()?.parse().ok()?),
        "int" => ValueObj::Int(v["v"].as_str()?.parse().ok()?),
        "float" => ValueObj::from(f64::from_bits(u64::from_str_radix(v["bits"].as_str()?, 16).ok()?)),
        "str" => ValueObj::Str(erg_common::Str::rc(v["s"].as_str()?)),
        "bool" => ValueObj::Bool(v["b"].as_bool()?),
        "none" => ValueObj::None,
        "tuple" => {
            let xs: Option<Vec<ValueObj>> = v["xs"].as_array()?.iter().map(value).collect();
            ValueObj::Tuple(Arc::from(&xs?[..]))
        }
        _ => return None,
    })
}

pub fn run_marshal(_args: &[String]) -> i32 {
    let mut out = Out::new();
    for rec in read_records() {
        let r = guarded(|| match value(&rec["v"]) {
            Some(v) => {
                let bytes = v.into_bytes(PythonVersion::new(3, Some(11), Some(0)));
                let hex: String = bytes.iter().map(|b| format!("{b:02x}")).collect();
                json!({"hex": hex})
            }
            None => json!({"error": "bad value description"}),
        });
        let mut v = match r {
            Ok(v) => v,
            Err(p) => json!({"panic": panic_site(&p)}),
        };
        if let Some(id) = rec.get("id") {
            v["id"] = id.clone();
        }
        out.emit(&v);
    }
    out.flush();
    0
}

pub fn run_pycread(_args: &[String]) -> i32 {
    let mut out = Out::new();
    for rec in read_records() {
        let path = rec["path"].as_str().unwrap_or("").to_string();
        let r = guarded(|| match CodeObj::from_pyc(&path) {
            Ok((code, _ver)) => json!({"ok": true, "name": code.name.to_string(), "nconsts": code.consts.len()}),
            Err(e) => json!({"ok": false, "err": e.desc.chars().take(200).collect::<String>()}),
        });
        let mut v = match r {
            Ok(v) => v,
            Err(p) => json!({"panic": panic_site(&p)}),
        };
        if let Some(id) = rec.get("id") {
            v["id"] = id.clone();
        }
        out.emit(&v);
    }
    out.flush();
    0
}
