//! `vh subtype`: the real subtype relation on a universe of types (C06).
//! stdin: one record {"types":[T...], "from":i, "to":j}; T is
//!   {"k":"c","n":"Int"} | {"k":"enum","vs":[lit...]} | {"k":"iv","lo":i,"hi":j}
//!   | {"k":"or","a":T,"b":T} | {"k":"and","a":T,"b":T} | {"k":"list","a":T,"len":n (-1 unknown)}
//!   | {"k":"tuple","a":T,"b":T}
//! stdout: {"row":i,"rel":"0110P..","shown":"<Display of the type>"} for every row in from..to
//! (rel[j] = '1' if types[i] <: types[j], 'P' if subtype_of panicked).
use erg_common::config::ErgConfig;
use erg_common::set::Set;
use erg_compiler::context::Context;
use erg_compiler::module::SharedCompilerResource;
use erg_compiler::ty::constructors::{and, closed_range, list_t, mono, or, tuple_t, unknown_len_list_t, v_enum};
use erg_compiler::ty::{TyParam, Type, ValueObj};
use serde_json::{json, Value};

use crate::util::{guarded, panic_site, read_records, Out};

fn lit(v: &Value) -> ValueObj {
    let s = v.as_str().unwrap_or("");
    if s == "True" {
        ValueObj::Bool(true)
    } else if s == "False" {
        ValueObj::Bool(false)
    } else if let Some(st) = s.strip_prefix('"') {
        ValueObj::Str(st.trim_end_matches('"').to_string().into())
    } else if s.contains('.') {
        ValueObj::from(s.parse::<f64>().unwrap_or(0.0))
    } else {
        let n: i64 = s.parse().unwrap_or(0);
        if n >= 0 {
            ValueObj::Nat(n as u64)
        } else {
            ValueObj::Int(n as i32)
        }
    }
}

fn build(t: &Value) -> Type {
    match t["k"].as_str().unwrap_or("") {
        "c" => match t["n"].as_str().unwrap_or("") {
            "Never" => Type::Never,
            "Obj" => Type::Obj,
            "Bool" => Type::Bool,
            "Nat" => Type::Nat,
            "Int" => Type::Int,
            "Ratio" => Type::Ratio,
            "Float" => Type::Float,
            "Complex" => Type::Complex,
            "Str" => Type::Str,
            "NoneType" => Type::NoneType,
            other => mono(other.to_string()),
        },
        "enum" => {
            // an enum type is homogeneous: with a negative member the integers are all Int values
            let vs = t["vs"].as_array().cloned().unwrap_or_default();
            let any_neg = vs.iter().any(|v| v.as_str().is_some_and(|s| s.starts_with('-')));
            let mut s = Set::new();
            for v in vs {
                let l = match lit(&v) {
                    ValueObj::Nat(n) if any_neg => ValueObj::Int(n as i32),
                    other => other,
                };
                s.insert(l);
            }
            v_enum(s)
        }
        "iv" => closed_range(
            Type::Int,
            TyParam::value(t["lo"].as_i64().unwrap_or(0) as i32),
            TyParam::value(t["hi"].as_i64().unwrap_or(0) as i32),
        ),
        "or" => or(build(&t["a"]), build(&t["b"])),
        "and" => and(build(&t["a"]), build(&t["b"])),
        "list" => {
            let n = t["len"].as_i64().unwrap_or(-1);
            if n < 0 {
                unknown_len_list_t(build(&t["a"]))
            } else {
                list_t(build(&t["a"]), TyParam::value(n as usize))
            }
        }
        "tuple" => tuple_t(vec![build(&t["a"]), build(&t["b"])]),
        other => panic!("unknown type form {other}"),
    }
}

pub fn run(_args: &[String]) -> i32 {
    let mut out = Out::new();
    for rec in read_records() {
        let cfg = ErgConfig::default();
        let shared = SharedCompilerResource::new(cfg.clone());
        let ctx = Context::new_module("<module>", cfg, shared);
        let specs = rec["types"].as_array().cloned().unwrap_or_default();
        let types: Vec<Result<Type, String>> = specs.iter().map(|t| guarded(|| build(t))).collect();
        let from = rec["from"].as_u64().unwrap_or(0) as usize;
        let to = rec["to"].as_u64().map(|v| v as usize).unwrap_or(types.len());
        for i in from..to.min(types.len()) {
            let mut rel = String::with_capacity(types.len());
            let mut sites = vec![];
            match &types[i] {
                Err(e) => {
                    out.emit(&json!({"row": i, "build_panic": panic_site(e)}));
                    continue;
                }
                Ok(ti) => {
                    for (j, tj) in types.iter().enumerate() {
                        match tj {
                            Err(_) => rel.push('B'),
                            Ok(tj) => match guarded(|| ctx.subtype_of(ti, tj)) {
                                Ok(true) => rel.push('1'),
                                Ok(false) => rel.push('0'),
                                Err(site) => {
                                    rel.push('P');
                                    if sites.len() < 3 {
                                        sites.push(json!({"j": j, "site": panic_site(&site)}));
                                    }
                                }
                            },
                        }
                    }
                    out.emit(&json!({"row": i, "rel": rel, "shown": format!("{ti}"), "panics": sites}));
                }
            }
        }
    }
    0
}
