"""Concrete side of specs/lang/TypedProg.tla: rendering of derived programs as Erg source, the
denotation of the type strings the real checker reports (a value-membership test), and the
evaluation pipeline shared by C02, C05 and C34."""
import ast
import re
from .common import *
from .ergprog import INT, erg_str, flt

TYPE_ERRORS = {"TypeError", "AttributeError", "NameError", "UnboundLocalError"}


def render(prog):
    """-> (source, {binding name: statement number})"""
    L = []
    for n, st in enumerate(prog, 1):
        k, op, a, b, c, s = st["k"], st["op"], st["a"], st["b"], st["c"], st["s"]
        v = f"v{n}"
        if k == "ilit": L.append(f"{v} = {INT[s]}")
        elif k == "flit": L.append(f"{v} = {flt(a, b)}")
        elif k == "slit": L.append(f"{v} = {erg_str(s)}")
        elif k in ("bin", "cmp", "scat", "smul"): L.append(f"{v} = v{a} {op} v{b}")
        elif k == "fn":
            T, U = s.split(",")
            L.append(f"f{n}(x: {T}, y: {U}) = x {op} y\n{v} = f{n}(v{a}, v{b})")
        elif k == "ann": L.append(f"{v}: {s} = v{a}")
        elif k == "neg": L.append(f"{v} = -v{a}")
        elif k == "meth": L.append(f"{v} = v{a}.{op}()")
        elif k == "slen": L.append(f"{v} = len(v{a})")
        elif k == "lmk": L.append(f"{v} = [v{a}, v{b}]")
        elif k == "lcat": L.append(f"{v} = v{a} + [v{b}]")
        elif k == "lget": L.append(f"{v} = v{a}[{b}]")
        elif k == "lpush": L.append(f"m{n} = ![v{a}, v{b}]\nm{n}.push! v{c}\n{v} = m{n}[{s}]")
        elif k == "lmap": L.append(f"{v} = v{a}.map(i -> i + v{b}).to_list()")
        elif k == "ifg":
            # s = "<form>,<lit>": form li: <lit> op i ; il: i op <lit> ; c = value of the else branch
            form, lit_ = s.split(",")
            cond = f"{lit_} {op} i" if form == "li" else f"i {op} {lit_}"
            L.append(f"f{n}(i: Int) = if {cond}, do i, do {c}\n{v} = f{n}(v{a})")
        elif k == "lpushi": L.append(f"{v} = v{a}.push(v{b})")
        elif k == "opmeth": L.append(f"{v} = (v{a} {op} v{b}).{s}()")
        elif k == "inject": L.append(render_inject(prog, n, st))
        else: raise ValueError(k)
    return "\n".join(L) + "\n"


def inject_expr(n, st):
    op, a, b, kind = st["op"], st["a"], st["b"], st["s"]
    pre = ""
    if kind == "opmis": e = f"v{a} {op} v{b}"
    elif kind == "argty":
        pre = f"g{n}(x: {op}) = x\n"
        e = f"g{n}(v{a})"
    elif kind == "arity":
        pre = f"g{n}(x, y) = x\n"
        e = f"g{n}(v{a})" if op == "1" else f"g{n}(v{a}, v{a}, v{a})"
    elif kind == "arityf":
        # the callee is a parameter of function type (its parameters have no names)
        pre = f"k{n}(x: Int, y: Int): Int = x + y\n"
        call = "cb(1)" if op == "1" else "cb(1, 2, 3)"
        return pre, f"(cb: (Int, Int) -> Int) -> {call}"
    elif kind == "undef": e = f"v{a} + zz{n}" if n % 2 else f"zz{n}"
    elif kind == "noattr": e = f"v{a}.nosuch{n}"
    else: raise ValueError(kind)
    return pre, e


def render_inject(prog, n, st):
    """the erroneous expression at nesting depth st['c']:
    0 top-level binding; 1 inside a function body; 2 inside a branch of an if inside a function;
    3 inside a lambda stored in a list; 4 as an argument of a call inside a nested block;
    5 default value of a parameter; 6 default value of a lambda parameter inside a loop body"""
    pre, e = inject_expr(n, st)
    d = st["c"]
    if d == 0: body = f"w{n} = {e}"
    elif d == 1: body = f"h{n}() =\n    t = {e}\n    t\n"
    elif d == 2: body = f"h{n}(c: Bool) =\n    if c:\n        do:\n            t = {e}\n            t\n        do: v1\n"
    elif d == 3: body = f"w{n} = [() -> {e}]"
    elif d == 4: body = f"k{n} x = x\nh{n}() =\n    u =\n        q = k{n}({e})\n        q\n    u\n"
    elif d == 5: body = f"h{n}(q, p := {e}) = q\n"                       # default value of a parameter
    elif d == 6: body = f"h{n}() =\n    for! [1], i =>\n        t = (p := {e}) -> p\n        print! i\n"   # default of a lambda in a loop body
    else: raise ValueError(d)
    return pre + body


# ---------------------------------------------------------------- type strings -> membership

class Unparsed(Exception):
    pass


_TOK = re.compile(r'\s*(\.\.<|<\.\.<|<\.\.|\.\.|<=|>=|==|!=|"(?:[^"\\]|\\.)*"|-?\d+\.\d+(?:e-?\d+)?|-?\d+|%?[A-Za-z_][A-Za-z_0-9!]*|.)')


def _tokens(s):
    out, i = [], 0
    s = s.strip()
    while i < len(s):
        m = _TOK.match(s, i)
        if not m:
            raise Unparsed(s)
        out.append(m.group(1))
        i = m.end()
    return out


class _P:
    def __init__(self, toks):
        self.t, self.i = toks, 0

    def peek(self):
        return self.t[self.i] if self.i < len(self.t) else None

    def eat(self, x=None):
        tok = self.peek()
        if tok is None or (x is not None and tok != x):
            raise Unparsed(f"expected {x} got {tok}")
        self.i += 1
        return tok

    def ty(self):
        alts = [self.conj()]
        while self.peek() == "or":
            self.eat()
            alts.append(self.conj())
        return alts[0] if len(alts) == 1 else ("or", alts)

    def conj(self):
        parts = [self.atom()]
        while self.peek() == "and":
            self.eat()
            parts.append(self.atom())
        return parts[0] if len(parts) == 1 else ("and", parts)

    # predicates of refinement types: comparisons of the variable with integer literals, and / or / not, parentheses
    def pred_or(self, var):
        alts = [self.pred_and(var)]
        while self.peek() == "or":
            self.eat()
            alts.append(self.pred_and(var))
        return alts[0] if len(alts) == 1 else ("por", alts)

    def pred_and(self, var):
        parts = [self.pred_atom(var)]
        while self.peek() == "and":
            self.eat()
            parts.append(self.pred_atom(var))
        return parts[0] if len(parts) == 1 else ("pand", parts)

    def pred_atom(self, var):
        if self.peek() == "(":
            self.eat()
            p = self.pred_or(var)
            self.eat(")")
            return p
        if self.peek() == "not":
            self.eat()
            return ("pnot", self.pred_atom(var))
        a = self.pred_operand(var)
        op = self.eat()
        if op not in ("<=", ">=", "==", "!=", "<", ">"):
            raise Unparsed("predicate operator " + str(op))
        b = self.pred_operand(var)
        return ("cmp", op, a, b)

    def pred_operand(self, var):
        tok = self.eat()
        if tok == var:
            return "var"
        if re.fullmatch(r"-?\d+(\.\d+)?", tok):
            return float(tok) if "." in tok else int(tok)
        raise Unparsed("predicate operand " + str(tok))

    def lit(self):
        tok = self.peek()
        if tok is None:
            raise Unparsed("eof")
        if tok == "[":
            self.eat()
            xs = []
            while self.peek() != "]":
                xs.append(self.lit())
                if self.peek() == ",":
                    self.eat()
            self.eat("]")
            return xs
        if tok in ("True", "False", "None"):
            self.eat()
            return {"True": True, "False": False, "None": None}[tok]
        if tok.startswith('"'):
            self.eat()
            return ast.literal_eval(tok)
        if re.fullmatch(r"-?\d+", tok):
            self.eat()
            return int(tok)
        if re.fullmatch(r"-?\d+\.\d+(e-?\d+)?", tok):
            self.eat()
            return float(tok)
        raise Unparsed(f"literal {tok}")

    def atom(self):
        tok = self.peek()
        if tok == "(":
            self.eat()
            t = self.ty()
            self.eat(")")
            return t
        if tok == "{" and self.i + 2 < len(self.t) and re.fullmatch(r"%?[A-Za-z_][A-Za-z_0-9]*", self.t[self.i + 1]) and self.t[self.i + 2] == ":":
            # refinement type {v: T | predicate}
            self.eat()
            var = self.eat()
            self.eat(":")
            base = self.ty()
            self.eat("|")
            pred = self.pred_or(var)
            self.eat("}")
            return ("refine", base, pred)
        if tok == "{":
            self.eat()
            lits = []
            while self.peek() != "}":
                lits.append(self.lit())
                if self.peek() == ",":
                    self.eat()
                elif self.peek() != "}":
                    raise Unparsed("refinement or expression in braces")
            self.eat("}")
            return ("enum", lits)
        if tok is not None and (re.fullmatch(r"-?\d+(\.\d+)?", tok)):
            lo = self.lit()
            op = self.eat()
            if op not in ("..", "..<", "<..", "<..<"):
                raise Unparsed(op)
            hi = self.lit()
            return ("range", lo, hi, op)
        if tok in ("Nat", "Int", "Float", "Str", "Bool", "NoneType", "Obj", "Never", "Ratio"):
            self.eat()
            return ("cls", tok)
        if tok == "List":
            self.eat()
            if self.peek() != "(":
                raise Unparsed("bare List")
            self.eat("(")
            el = self.ty()
            n = None
            if self.peek() == ",":
                self.eat()
                rest = []
                depth = 0
                while not (self.peek() == ")" and depth == 0):
                    x = self.eat()
                    depth += x == "("
                    depth -= x == ")"
                    rest.append(x)
                if len(rest) == 1 and rest[0].isdigit():
                    n = int(rest[0])
                elif rest[:1] == ["_"]:
                    n = None
                else:
                    raise Unparsed("list length " + " ".join(rest))
            self.eat(")")
            return ("list", el, n)
        raise Unparsed(f"type {tok}")


def parse_type(s):
    p = _P(_tokens(s))
    t = p.ty()
    if p.peek() is not None:
        raise Unparsed("trailing " + str(p.peek()))
    return t


def _same(v, lit):
    if isinstance(lit, list):
        return isinstance(v, list) and len(v) == len(lit) and all(_same(x, y) for x, y in zip(v, lit))
    if isinstance(lit, bool) or isinstance(v, bool):
        return isinstance(lit, bool) and isinstance(v, bool) and v == lit
    if lit is None or v is None:
        return lit is None and v is None
    if isinstance(lit, str) or isinstance(v, str):
        return isinstance(lit, str) and isinstance(v, str) and v == lit
    return v == lit


def member(v, t):
    """does the Python value v belong to the parsed Erg type t"""
    k = t[0]
    if k == "or":
        return any(member(v, x) for x in t[1])
    if k == "and":
        return all(member(v, x) for x in t[1])
    if k == "enum":
        return any(_same(v, l) for l in t[1])
    if k == "range":
        if isinstance(v, bool) or not isinstance(v, (int, float)):
            return False
        lo, hi, op = t[1], t[2], t[3]
        return (lo < v if op.startswith("<") else lo <= v) and (v < hi if op.endswith("<") else v <= hi)
    if k == "cls":
        c = t[1]
        if c == "Obj": return True
        if c == "Never": return False
        if c == "Nat": return isinstance(v, int) and v >= 0
        if c == "Int": return isinstance(v, int)
        if c in ("Float", "Ratio"): return isinstance(v, (int, float))
        if c == "Str": return isinstance(v, str)
        if c == "Bool": return isinstance(v, bool)
        if c == "NoneType": return v is None
    if k == "list":
        return isinstance(v, list) and (t[2] is None or len(v) == t[2]) and all(member(x, t[1]) for x in v)
    if k == "refine":
        return member(v, t[1]) and isinstance(v, (int, float)) and not isinstance(v, str) and eval_pred(t[2], v)
    raise Unparsed(str(t))


def eval_pred(p, x):
    k = p[0]
    if k == "por": return any(eval_pred(q, x) for q in p[1])
    if k == "pand": return all(eval_pred(q, x) for q in p[1])
    if k == "pnot": return not eval_pred(p[1], x)
    a = x if p[2] == "var" else p[2]
    b = x if p[3] == "var" else p[3]
    return {"<=": a <= b, ">=": a >= b, "==": a == b, "!=": a != b, "<": a < b, ">": a > b}[p[1]]


HIR_BIND = re.compile(r"^::(v\d+)\(: (.*)\) =$", re.M)


def reported_types(hir):
    return {m.group(1): m.group(2) for m in HIR_BIND.finditer(hir or "")}


def runtime_bindings(run):
    """{'v3': python value} from the namespace the module left behind"""
    out = {}
    for name, ent in (run.get("globals") or {}).items():
        m = re.fullmatch(r"::(v\d+)_L\d+", name)
        if not m:
            continue
        try:
            out[m.group(1)] = (ast.literal_eval(ent["repr"]), ent["cls"], ent["repr"])
        except Exception:
            out[m.group(1)] = (Unparsed, ent["cls"], ent["repr"])
    return out


def shape(st):
    return st["k"] + (":" + st["op"] if st["op"] else "") + (":" + st["s"] if st["k"] in ("fn", "ann", "inject", "ifg", "opmeth") else "")


def derive(cfg, num, depth, seed, tag, workers=8, timeout=900, exhaustive=False, per_shape=None):
    """distinct complete programs from TypedProg.tla; per_shape bounds how many programs ending in the
    same statement shape (template, operator, signature, operand types) are kept"""
    if exhaustive:
        r = tlc("lang/MC_TypedProg.tla", cfg=cfg, workers=workers, coverage=False, timeout=timeout, tag=tag)
    else:
        r = tlc("lang/MC_TypedProg.tla", cfg=cfg, workers=workers, coverage=False, simulate=num, depth=depth, seed=seed,
                timeout=timeout, tag=tag)
    if not r.ok:
        raise ToolError("TypedProg.tla: TLC reports " + str(r.invariant_violated) + "\n" + r.out[-1500:])
    seen, recs = set(), []
    for rec in r.tagged("T"):
        key = canon(rec["prog"])
        if key not in seen:
            seen.add(key)
            recs.append(rec)
    if per_shape:
        import random
        rnd = random.Random(seed)
        rnd.shuffle(recs)
        cnt, kept = {}, []
        for rec in recs:
            st = rec["prog"][-1]
            k = (shape(st), len(rec["prog"]) > 4) + tuple(rec["ty"][x - 1] for x in (st["a"], st["b"]) if 1 <= x <= len(rec["ty"]))
            if cnt.get(k, 0) < per_shape:
                cnt[k] = cnt.get(k, 0) + 1
                kept.append(rec)
        recs = kept
    return r, recs


def compile_run(vh, recs, name, opt=0, jobs=14, py=None, typed_tree=True):
    """real checker (typed tree), real compiler and a real interpreter on every derived program"""
    srcs = [render(r["prog"]) for r in recs]
    env = erg_env(py)
    hir = {}
    if typed_tree:
        chk = vh_all(vh, "check", [{"id": i, "src": s, "mode": "check", "hir": True} for i, s in enumerate(srcs)], jobs=jobs, env=env)
        hir = {o["id"]: o for o in chk}
    d = scratch(name)
    res = compile_and_run(vh, srcs, d, py=py, opt=opt, jobs=jobs, dump=True)
    shutil.rmtree(d, ignore_errors=True)
    return srcs, hir, res
