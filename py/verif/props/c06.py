"""C06 Subtyping is a preorder with the documented bottom, top and tower.

Subtyping.tla defines the universe of types up to nesting depth 2 (built-in classes and traits,
literal enum and interval types, unions, intersections, lists and tuples), closed under subterms.
TLC enumerates it; the harness (`vh subtype`) builds every type with the compiler's own
constructors and asks the real Context::subtype_of for every ordered pair; the resulting 0/1
matrix is handed back to TLC, which checks the laws on it row by row: reflexivity, transitivity
(all triples), Never below and Obj above every type, the numeric tower, T <: T or U,
T and U <: T, enum/interval below the class of its values.  Every failing instance is reported
with the types involved."""
from ..common import *

LEVEL = "model_checking"


def shape(t, d=0):
    k = t["k"]
    if k == "c": return t["n"]
    if k == "enum": return "{" + ", ".join(t["vs"]) + "}"
    if k == "iv": return f"{t['lo']}..{t['hi']}"
    if k in ("or", "and"): return f"({shape(t['a'])} {k} {shape(t['b'])})"
    if k == "list": return f"List({shape(t['a'])}, {'_' if t['len'] < 0 else t['len']})"
    if k == "tuple": return f"Tuple({shape(t['a'])}, {shape(t['b'])})"
    return "?"


def has_refinement(t):
    return t["k"] in ("enum", "iv") or any(has_refinement(t[x]) for x in ("a", "b") if isinstance(t.get(x), dict))


def kindsig(t):
    """coarse form of a type for signatures: its outermost constructor, marked with * when a refinement
    (enum or interval) type occurs in it"""
    k = {"c": "class", "enum": "enum", "iv": "interval", "or": "union", "and": "intersection", "list": "list", "tuple": "tuple"}[t["k"]]
    return k + ("*" if has_refinement(t) and t["k"] not in ("enum", "iv") else "")


def relation(vh, types, jobs=14):
    n = len(types)
    step = (n + jobs - 1) // jobs
    recs = [{"types": types, "from": a, "to": min(n, a + step)} for a in range(0, n, step)]
    from concurrent.futures import ThreadPoolExecutor
    env = erg_env(None)
    cwd = scratch("c06cwd")

    def one(rec):
        p = subprocess.run([vh, "subtype"], input=json.dumps(rec) + "\n", stdout=subprocess.PIPE, stderr=subprocess.PIPE, text=True,
                           timeout=3000, env=env, cwd=cwd)
        if p.returncode != 0:
            raise ToolError("vh subtype failed: " + p.stderr[-500:])
        return [json.loads(l) for l in p.stdout.splitlines() if l.startswith("{")]
    rows = {}
    with ThreadPoolExecutor(max_workers=jobs) as ex:
        for part in ex.map(one, recs):
            for r in part:
                rows[r["row"]] = r
    if len(rows) != n:
        raise ToolError(f"subtype harness returned {len(rows)} of {n} rows")
    return [rows[i] for i in range(n)]


def run(ctx):
    vh, _ = build_core()
    stage_erg_path()
    quick = ctx.tier == "quick"
    cfg = "MC_Subtyping_q.cfg" if quick else "MC_Subtyping_t.cfg"
    r1 = tlc("types/MC_Subtyping.tla", cfg=cfg, workers=1, coverage=False, env_extra={"C06_MODE": "universe"}, tag="c06u")
    u = r1.tagged("U")
    if not r1.ok or not u:
        raise ToolError("Subtyping.tla: universe run failed " + r1.out[-500:])
    types = u[0]
    rows = relation(vh, types)
    panics = 0
    for i, r in enumerate(rows):
        if "build_panic" in r:
            raise ToolError(f"cannot construct {shape(types[i])}: {r['build_panic']}")
        for pn in r.get("panics", []):
            panics += 1
            ctx.violation({"kind": "subtype_of-panics", "sub": kindsig(types[i]), "sup": kindsig(types[pn["j"]])},
                          {"sub": shape(types[i]), "sup": shape(types[pn["j"]]), "site": pn["site"]},
                          f"subtype_of({shape(types[i])}, {shape(types[pn['j']])}) panics: {pn['site'][:100]}")
    rel = [[1 if c == "1" else 0 for c in r["rel"]] for r in rows]
    d = os.path.join(BUILD, "c06")
    os.makedirs(d, exist_ok=True)
    path = os.path.join(d, f"rel-{ctx.tier}.json")
    json.dump({"types": types, "rel": rel}, open(path, "w"))
    r2 = tlc("types/MC_Subtyping.tla", cfg=cfg, workers=8, coverage=False, env_extra={"C06_MODE": "laws", "C06_REL": path}, tag="c06l",
             timeout=3000, heap="8g")
    ctx.tlc_stats(r2, "Subtyping.tla laws on the recorded relation (one state per row)")
    if r2.distinct != len(types) + 1:
        raise ToolError(f"law scan visited {r2.distinct} states for {len(types)} types: " + r2.out[-800:])
    counts = {}
    for batch in r2.tagged("L"):
        for v in batch:
            law = v["law"]
            counts[law] = counts.get(law, 0) + 1
            a, b, c = types[v["a"] - 1], types[v["b"] - 1], (types[v["c"] - 1] if v["c"] else None)
            if law == "transitive":
                what = f"{shape(a)} <: {shape(b)} and {shape(b)} <: {shape(c)} but not {shape(a)} <: {shape(c)}"
                sig = {"law": law, "a": kindsig(a), "b": kindsig(b), "c": kindsig(c)}
            else:
                what = f"{law}: {shape(a)} <: {shape(b)} does not hold"
                sig = {"law": law, "a": kindsig(a), "b": kindsig(b)}
            ctx.violation(sig, {"law": law, "a": shape(a), "b": shape(b), "c": shape(c) if c else None,
                                "shown": [rows[v["a"] - 1]["shown"], rows[v["b"] - 1]["shown"]]}, what)
    n = len(types)
    ctx.set("types", n)
    ctx.set("pairs_asked", n * n)
    ctx.set("pairs_related", sum(sum(r_) for r_ in rel))
    ctx.set("triples_checked", n * n * n)
    ctx.set("law_instances_failing", counts)
    ctx.set("distinct_nontrivial", n)
    ctx.set("rule", "distinct types of the universe; every ordered pair is asked of the real subtype_of, every triple is checked for transitivity")
    # canary: corrupt one entry of the matrix (drop reflexivity of row 1) and see TLC report it
    rel2 = [list(r_) for r_ in rel]
    rel2[0][0] = 0
    p2 = os.path.join(d, f"rel-{ctx.tier}-canary.json")
    json.dump({"types": types[:40], "rel": [r_[:40] for r_ in rel2[:40]]}, open(p2, "w"))
    r3 = tlc("types/MC_Subtyping.tla", cfg=cfg, workers=2, coverage=False, env_extra={"C06_MODE": "laws", "C06_REL": p2}, tag="c06c")
    seen = any(v["law"] == "reflexive" for b in r3.tagged("L") for v in b)
    ctx.set("canary_rejected", seen)
    if not seen:
        raise ToolError("canary: a corrupted relation was not reported")
    ctx.sample({"type": shape(types[0]), "below": [shape(types[j]) for j in range(n) if rel[0][j]][:8]})
    ctx.sample({"type": shape(types[-1]), "below": [shape(types[j]) for j in range(n) if rel[-1][j]][:8]})


def replay(path):
    d = json.load(open(path))
    print(json.dumps(d, indent=1))
    return 0
