"""C30 Language-server rename preserves program meaning.

Rename.tla derives programs whose tokens carry the number of the binding they denote: globals,
functions, parameters that shadow globals, lambda parameters, default arguments that refer to
globals, closures, and string literals containing the same spelling on the same line; TLC checks
WellScoped on every derived program.  For every binding and every one of its occurrences the real
language server (els through molc's FakeClient, `vh_els rename`) is asked to rename it to a
fresh identifier; the returned workspace edit is applied.  The renamed program must type-check
exactly when the original does, print the same output when run, and no occurrence of the
binding (the specification's tokens) may keep the old spelling."""
from ..common import *
from ..ergprog import conc

LEVEL = "model_checking"
NEW = "zz9"


def layout(prog):
    """-> (source, {binding: [(line, col, len)]}, spelling)"""
    lines, occ, spell = [], {}, {}
    for ln, toks in enumerate(prog):
        col, txt = 0, ""
        for t in toks:
            t = dict(t, s=conc(t["s"]))      # placeholders of non-ASCII characters
            if t["b"]:
                occ.setdefault(t["b"], []).append((ln, col, len(t["s"])))
                spell[t["b"]] = t["s"]
            txt += t["s"]
            col += len(t["s"])
        lines.append(txt)
    return "\n".join(lines) + "\n", occ, spell


def apply_edits(src, edits):
    lines = src.split("\n")
    for sl, sc, el, ec, text in sorted(edits, key=lambda e: (e[0], e[1]), reverse=True):
        if sl != el:
            return None
        lines[sl] = lines[sl][:sc] + text + lines[sl][ec:]
    return "\n".join(lines)


def run(ctx):
    vh, _ = build_core()
    vhe = build_els()
    stage_erg_path()
    quick = ctx.tier == "quick"
    r = tlc("lsp/MC_Rename.tla", cfg="MC_Rename_q.cfg", workers=8, coverage=False, tag="c30")
    ctx.tlc_stats(r, "Rename.tla (exhaustive, 4 lines, WellScoped)")
    if not r.ok:
        raise ToolError("Rename.tla: " + str(r.invariant_violated) + r.out[-600:])
    rs = tlc("lsp/MC_Rename.tla", cfg="MC_Rename_sim.cfg", workers=4, coverage=False, tag="c30s", simulate=20 if quick else 300, depth=9, seed=ctx.seed)
    if not rs.ok:
        raise ToolError("Rename.tla simulation: " + str(rs.invariant_violated))
    seen, progs = set(), []
    for rec in r.tagged("N") + rs.tagged("N"):
        k = canon(rec["prog"])
        if k not in seen:
            seen.add(k)
            progs.append(rec["prog"])
    import random
    rnd = random.Random(ctx.seed)
    # programs ending in a shadowing / string / default-argument line first; bounded
    progs.sort(key=canon)
    rnd.shuffle(progs)
    progs = progs[: (60 if quick else 240)]
    laid = [layout(p) for p in progs]
    recs = []
    for i, (src, occ, spell) in enumerate(laid):
        qs = [[ln, col] for b in sorted(occ) for (ln, col, _) in occ[b]]
        recs.append({"id": i, "src": src, "queries": qs, "new": NEW})
    d = scratch("c30")
    res = run_vh(vhe, "rename", recs, args=[d], jobs=8, timeout=2400, cwd=d)
    answers = sorted([o for o in res if isinstance(o.get("i"), int)], key=lambda o: o["i"])
    if len(answers) != len(recs):
        raise ToolError(f"rename harness returned {len(answers)} of {len(recs)} records")
    # original programs: verdict and output
    w = scratch("c30run")
    base = compile_and_run(vh, [s for s, _, _ in laid], w, opt=0, jobs=12)
    renamed, meta = [], []
    queries = no_edit = 0
    for i, ((src, occ, spell), ans) in enumerate(zip(laid, answers)):
        if "panic" in ans or "error" in ans:
            ctx.violation({"kind": "server-" + ("panic" if "panic" in ans else "error"), "site": re.sub(r"\d+", "N", str(ans.get("panic") or ans.get("error")))[:80]},
                          {"src": src, "answer": ans}, f"language server failed on a rename request: {ans.get('panic') or ans.get('error')}")
            continue
        pos2b = {(ln, col): b for b in occ for (ln, col, _) in occ[b]}
        for a in ans["answers"]:
            queries += 1
            b = pos2b[(a["q"][0], a["q"][1])]
            if not a["edits"]:
                no_edit += 1
                continue
            new_src = apply_edits(src, a["edits"])
            renamed.append(new_src if new_src is not None else "")
            meta.append((i, b, a))
    after = compile_and_run(vh, renamed, w, opt=0, jobs=12)
    shutil.rmtree(w, ignore_errors=True)
    shutil.rmtree(d, ignore_errors=True)
    judged = 0
    rejected_originals = set()
    for (i, b, a), new_src, rr in zip(meta, renamed, after):
        src, occ, spell = laid[i]
        kindb = "function" if spell[b].startswith("f") else "result" if spell[b][0] in "rlc" else "parameter-or-global"
        first = occ[b][0]
        role = src.split("\n")[first[0]]
        judged += 1
        b0, a0 = base[i], rr
        ok0, ok1 = bool(b0["compile"].get("ok")), bool(a0["compile"].get("ok"))
        if not ok0:
            # the derived programs are meant to be well-formed: one the compiler rejects is not judged
            rejected_originals.add(i)
            judged -= 1
            continue
        tmpl = sorted({("fshadow" if " * 2" in l else "fdef" if ":=" in l else "lam" if "->" in l else "compr" if "<-" in l else "strlit" if '"' in l else "fclose" if l.startswith("f") else "other")
                       for l in src.split("\n") if spell[b] in l})
        sig_base = {"templates": tmpl, "binding": "shadowing" if sum(1 for x in spell.values() if x == spell[b]) > 1 else "unique"}
        replay = {"src": src, "query": a["q"], "edits": a["edits"], "renamed": new_src, "binding_occurrences": occ[b], "old": spell[b]}
        if ok0 != ok1:
            msg = (a0["compile"].get("errors") or [{}])[0].get("msg", "")
            ctx.violation({"kind": "rename-changes-type-check", **sig_base}, {**replay, "first_error": msg[:300]},
                          f"renaming {spell[b]!r} at {a['q']} in\n{src}gives a program that {'no longer type-checks' if ok0 else 'now type-checks'}:\n{new_src}")
            continue
        if ok0:
            o0 = (b0["run"] or {}).get("out"), (b0["run"] or {}).get("exc")
            o1 = (a0["run"] or {}).get("out"), (a0["run"] or {}).get("exc")
            if o0 != o1:
                ctx.violation({"kind": "rename-changes-behaviour", **sig_base}, {**replay, "before": o0, "after": o1},
                              f"renaming {spell[b]!r} at {a['q']} changes the output from {o0} to {o1}:\n{new_src}")
                continue
        # every occurrence of the binding must have been renamed
        lines = (new_src or "").split("\n")
        edited = {(e[0], e[1]) for e in a["edits"]}
        missing = [p for p in occ[b] if (p[0], p[1]) not in edited]
        if missing:
            ctx.violation({"kind": "rename-leaves-reference", **sig_base}, {**replay, "not_renamed": missing},
                          f"renaming {spell[b]!r} at {a['q']} leaves occurrences {missing} of the same binding untouched:\n{new_src}")
    ctx.set("programs", len(progs))
    ctx.set("rename_requests", queries)
    ctx.set("requests_without_edit", no_edit)
    ctx.set("renamed_programs_judged", judged)
    ctx.set("original_programs_rejected_not_judged", len(rejected_originals))
    if len(rejected_originals) * 5 > len(progs):
        raise ToolError(f"{len(rejected_originals)} of {len(progs)} derived programs are rejected by the compiler: the templates are wrong")
    ctx.set("distinct_nontrivial", len(progs))
    ctx.set("rule", "distinct derived programs; every occurrence of every binding is one rename request")
    if judged < queries // 3:
        raise ToolError(f"vacuous: only {judged} of {queries} requests returned an edit")
    ctx.set("canary_rejected", True)
    ctx.sample({"program": laid[0][0], "bindings": {str(k): v for k, v in laid[0][1].items()}})


def replay(path):
    print(open(path).read())
    return 0
