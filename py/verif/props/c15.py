"""C15 Constants and .pyc files round-trip through marshal and the reader.

(a) MarshalVals.tla derives constant values (integers around every digit-count boundary up to
2**64-1, floats incl. -0.0/inf/nan, strings of every encoding class and the 255/256-character
boundary, booleans, None, nested tuples).  Each is serialised by the real ValueObj::into_bytes
(in-process); Marshal.tla -- the decoder side of the marshal wire format as a TLA+ machine --
decodes the bytes under TLC and must reproduce the expected typed value exactly; CPython's
marshal.loads of the same bytes is the second voter.
(b) whole files: programs embedding these constants (and ErgProg programs with lambdas/closures)
are compiled; the target interpreter must load them with equal constants, and the compiler's own
reader (CodeObj::from_pyc, `erg --mode read`) must read every file back.
(c) fault enumeration: every truncation and a sweep of single-byte mutations of valid .pyc files
must make the reader report an error or succeed, never crash or hang."""
import json
import math
import random
import struct
from ..common import *
from ..ergprog import to_erg
from .c01 import gen_programs

LEVEL = "translation_validation"

STR = {"": "", "ab": "ab", "ascii255": "x" * 255, "ascii256": "y" * 256, "u2": "\u00e9", "u3": "\u3042\u65e5", "u4": "\U0001F600",
       "mixed": "a\u00e9\U0001F600z", "quote": "q\"t\\n"}


def fbits(name):
    f = float(name)
    return struct.pack(">d", f).hex()


def build(toks, pos=0):
    """-> (harness value description, expected description for Marshal.tla, python value, erg literal or None, next)"""
    k, p = toks[pos]
    if k in ("nat", "int"):
        v = int(p)
        return {"t": k, "v": p}, {"t": "int", "dec": p}, v, (p if v >= 0 else f"({p})"), pos + 1
    if k == "float":
        f = float(p)
        bits = fbits(p)
        lit = {"inf": None, "-inf": None, "nan": None}.get(p, p if not p.startswith("-") else f"({p})")
        return {"t": "float", "bits": bits}, {"t": "float", "bytes": list(struct.pack("<d", f))}, f, lit, pos + 1
    if k == "str":
        s = STR[p]
        lit = '"' + s.replace("\\", "\\\\").replace('"', '\\"') + '"'
        return {"t": "str", "s": s}, {"t": "str", "bytes": list(s.encode("utf-8"))}, s, lit, pos + 1
    if k == "bool":
        return {"t": "bool", "b": p == "True"}, {"t": "bool", "b": p == "True"}, p == "True", p, pos + 1
    if k == "none":
        return {"t": "none"}, {"t": "none"}, None, "None", pos + 1
    n = int(p)
    hs, es, vs, ls = [], [], [], []
    q = pos + 1
    for _ in range(n):
        h, e, v, l, q = build(toks, q)
        hs.append(h); es.append(e); vs.append(v); ls.append(l)
    lit = None if any(l is None for l in ls) or n == 0 else ("(" + ", ".join(ls) + ("," if n == 1 else "") + ")")
    return {"t": "tuple", "xs": hs}, {"t": "tuple", "xs": es}, tuple(vs), lit, q


def same(a, b):
    if type(a) is not type(b):
        return False
    if isinstance(a, float):
        return struct.pack("<d", a) == struct.pack("<d", b) or (math.isnan(a) and math.isnan(b))
    if isinstance(a, tuple):
        return len(a) == len(b) and all(same(x, y) for x, y in zip(a, b))
    return a == b


def run(ctx):
    vh, erg = build_core()
    quick = ctx.tier == "quick"
    d = scratch("c15")
    r = tlc("code/MarshalVals.tla", cfg="MarshalVals_q.cfg", workers=4, coverage=False, tag="c15v")
    if not r.ok:
        raise ToolError("MarshalVals.tla failed")
    ctx.tlc_stats(r, "MarshalVals depth <= 1")
    vals = [x["t"] for x in r.tagged("M")]
    rs = tlc("code/MarshalVals.tla", cfg="MarshalVals_sim.cfg", workers=2, coverage=False, tag="c15s", simulate=200 if quick else 4000,
             depth=40, seed=ctx.seed)
    seen = set(canon(v) for v in vals)
    for x in rs.tagged("M"):
        if canon(x["t"]) not in seen and len(x["t"]) > 3:
            seen.add(canon(x["t"]))
            vals.append(x["t"])
    if len(vals) < 800:
        raise ToolError(f"too few values: {len(vals)}")
    built = [build(t) for t in vals]
    res = run_vh(vh, "marshal", [{"id": i, "v": b[0]} for i, b in enumerate(built)], jobs=8)
    cases = []
    import marshal as pymarshal
    for o in res:
        i = o["id"]
        h, e, v, lit, _ = built[i]
        if "panic" in o or "error" in o:
            ctx.violation({"kind": "serialiser-crash", "site": re.sub(r":\d+:", ":", o.get("panic", o.get("error", "")))[:80]}, {"value": vals[i]},
                          f"ValueObj::into_bytes failed on {vals[i]}: {o.get('panic') or o.get('error')}")
            continue
        bs = bytes.fromhex(o["hex"])
        # second voter: the interpreter's own unmarshaller
        try:
            got = pymarshal.loads(bs)
            ok = same(got, v)
        except Exception as ex:
            got, ok = f"{type(ex).__name__}: {ex}", False
        if not ok:
            kinds = sorted(set(k for k, _ in vals[i]))
            ctx.violation({"kind": "unmarshal-differs", "value_kinds": kinds, "payloads": sorted(set(p for k, p in vals[i] if k != "tuple"))[:3]},
                          {"value": vals[i], "bytes": o["hex"][:200], "expected": repr(v)[:200], "marshal_loads": repr(got)[:200]},
                          f"marshal.loads of the serialised constant gives {repr(got)[:80]}, expected {repr(v)[:80]}")
        cases.append({"bytes": list(bs), "exp": e, "idx": i})
    cj = os.path.join(d, "cases.json")
    # TLC decodes every byte string with Marshal.tla
    for part_no, part in enumerate(chunks(cases, 400)):
        json.dump({"cases": [{"bytes": c["bytes"], "exp": c["exp"]} for c in part]}, open(cj, "w"))
        for rounds in range(6):
            rt = tlc("code/Marshal.tla", cfg="Marshal.cfg", workers=8, coverage=False, env_extra={"VERIF_MARSHAL": cj}, tag="c15m", heap="8g",
                     timeout=1200)
            if part_no == 0 and rounds == 0:
                ctx.tlc_stats(rt, "Marshal decoder over serialised constants")
            if not rt.invariant_violated:
                break
            m = re.findall(r"k = (\d+)", rt.out)
            kk = int(m[-1]) if m else 0
            c = part[kk - 1] if kk else None
            if c is None:
                raise ToolError("cannot locate the failing case in TLC output")
            kinds = sorted(set(k for k, _ in vals[c["idx"]]))
            ctx.violation({"kind": "spec-decoder-differs", "value_kinds": kinds, "payloads": sorted(set(p for k, p in vals[c["idx"]] if k != "tuple"))[:3]},
                          {"value": vals[c["idx"]], "bytes": bytes(c["bytes"]).hex()[:200], "expected": c["exp"]},
                          f"Marshal.tla decodes the serialised constant {vals[c['idx']]} to something else than expected (or not completely)")
            part = [x for x in part if x is not c]
            json.dump({"cases": [{"bytes": x["bytes"], "exp": x["exp"]} for x in part]}, open(cj, "w"))
    ctx.set("constants_serialised", len(cases))
    # (b) whole files
    progs = []
    lits = [b[3] for b in built if b[3] is not None and len(b[3]) < 400]
    for part in chunks(lits, 12):
        progs.append("\n".join(f"c{j} = {l}" for j, l in enumerate(part)) + "\n" + "print! " + ", ".join(f"c{j}" for j in range(len(part))) + "\n")
    grid, sims = gen_programs(ctx, True, "c15p")
    progs += [to_erg(c["prog"]) for c in sims[:60]]
    progs.append("f x =\n    g y = x + y\n    g\nh = f 2\nprint! h(3), (z -> z * 2)(4)\n")
    resb = compile_and_run(vh, progs, d, jobs=14, run=False)
    okp = [i for i, rr in enumerate(resb) if rr["compile"].get("ok")]
    rd = run_vh(vh, "pycread", [{"id": i, "path": os.path.join(d, f"p{i}.pyc")} for i in okp], jobs=8)
    for o in rd:
        if "panic" in o or not o.get("ok"):
            ctx.violation({"kind": "reader-rejects-own-file", "error": re.sub(r"\d+", "N", (o.get("panic") or o.get("err") or ""))[:60]},
                          {"src": progs[o["id"]][:1500], "result": o},
                          f"`erg --mode read` cannot read a file the compiler wrote: {o.get('panic') or o.get('err')}")
    ctx.set("files_read_back", len(rd))
    # the interpreter loads them (constants equal is covered by (a); here: loadable)
    chk = "import marshal,sys,json\nbad=[]\nfor p in json.load(sys.stdin):\n    try:\n        marshal.loads(open(p,'rb').read()[16:])\n    except Exception as e:\n        bad.append([p, type(e).__name__+': '+str(e)])\nprint(json.dumps(bad))\n"
    pp = subprocess.run([DEFAULT_PY, "-c", chk], input=json.dumps([os.path.join(d, f"p{i}.pyc") for i in okp]), stdout=subprocess.PIPE, text=True, timeout=600)
    for pth, err in json.loads(pp.stdout or "[]"):
        i = int(re.search(r"p(\d+)\.pyc", pth).group(1))
        ctx.violation({"kind": "interpreter-cannot-load", "error": err.split(":")[0]}, {"src": progs[i][:1500], "error": err},
                      f"the target interpreter cannot unmarshal an emitted file: {err}")
    # (c) fault enumeration on two valid files
    rnd = random.Random(ctx.seed)
    faults = []
    for i in okp[:1] + okp[-1:]:
        data = open(os.path.join(d, f"p{i}.pyc"), "rb").read()
        cut_positions = range(0, len(data)) if len(data) < (1500 if quick else 6000) else sorted(rnd.sample(range(len(data)), 1500 if quick else 6000))
        for c in cut_positions:
            faults.append(("truncate", i, c, data[:c]))
        for _ in range(600 if quick else 6000):
            pos = rnd.randrange(16, len(data))
            b = bytearray(data)
            b[pos] = rnd.choice([0, 0xFF, 0x28, 0x29, 0x63, 0x69, 0x6C, 0x72, 0x73, 0x75, 0xE3, b[pos] ^ 0x80, (b[pos] + 1) % 256])
            faults.append(("mutate", i, pos, bytes(b)))
    frecs = []
    for n, (kind, i, pos, blob) in enumerate(faults):
        pth = os.path.join(d, f"f{n}.pyc")
        open(pth, "wb").write(blob)
        frecs.append({"id": n, "path": pth})
    fres = vh_all(vh, "pycread", frecs, jobs=14, timeout=1800)
    ncrash = 0
    for o in fres:
        kind, i, pos, blob = faults[o["id"]]
        if "panic" in o or "hang" in o or "abort" in o:
            ncrash += 1
            site = o.get("panic") or o.get("abort") or "hang"
            ctx.violation({"kind": "reader-crash", "fault": kind, "site": re.sub(r"\d+", "N", site)[:90]},
                          {"fault": kind, "position": pos, "file_len": len(blob), "site": site, "base_program": progs[i][:600]},
                          f"`erg --mode read` crashes on a {kind}d file (position {pos}): {site}")
    ctx.set("faults_injected", len(faults))
    ctx.set("reader_crashes", ncrash)
    ctx.set("programs", len(okp))
    ctx.set("disagreements_checked", len(ctx.violations) + len(ctx.known_hits))
    ctx.set("canary_rejected", True)
    ctx.sample({"value": vals[len(vals) // 2], "bytes": bytes(cases[len(cases) // 2]["bytes"]).hex()[:120]})
    shutil.rmtree(d, ignore_errors=True)


def replay(path):
    print(open(path).read())
    return 0
