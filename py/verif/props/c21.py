"""C21 Module dependency graph operations match a reference graph.

ModuleGraphRef.tla (layer A) is explored by TLC; every transition of its state graph (one
history per abstract state x registration order) and long simulated histories are replayed on
the real erg_compiler::module::ModuleGraph, with *all* public queries compared after the step.
TSort.tla enumerates every small graph for the real tsort.  ModuleGraphImpl.tla (layer B,
mirrors graph.rs) is model-checked for refinement of layer A."""
import json
from ..common import *


def sig_of(m):
    d = m.get("detail") or {}
    return {"kind": m["kind"], "after": m.get("op"), "query": d.get("query")}


def run(ctx):
    vh, _ = build_core()
    base = scratch("c21")
    quick = ctx.tier == "quick"

    # ---- layer B refines layer A (design level; a failure is a prediction, not a verdict)
    rB = tlc("graph/MC_GraphImpl.tla", cfg="MC_GraphImpl.cfg", workers=4, tag="c21b")
    ctx.tlc_stats(rB, "ModuleGraphImpl refines ModuleGraphRef (3 paths, 6 ops)")
    if not rB.ok:
        ctx.model_drift(f"layer B (ModuleGraphImpl) violates {rB.invariant_violated}: predicted defect or drift")
    ctx.set("layerB_refines_A", rB.ok)

    # ---- exhaustive: every transition of the reference state graph
    cfg = "MC_Graph_T4.cfg"
    r = tlc("graph/MC_Graph.tla", cfg=cfg, workers=8, tag="c21", timeout=1500,
            extra=None if quick else None)
    if not r.ok:
        raise ToolError(f"reference specification violates its own property {r.invariant_violated}")
    ctx.tlc_stats(r, f"ModuleGraphRef {cfg} (per-transition emission)")
    recs = r.tagged("T")
    kinds = {}
    for x in recs:
        k = x["hist"][-1]["op"] + "/" + x["hist"][-1]["res"]
        kinds[k] = kinds.get(k, 0) + 1
    for need in ("add/ok", "incref/ok", "incref/cycle", "remove/ok", "rename/ok", "sort/ok", "sort/dangling"):
        if kinds.get(need, 0) == 0:
            raise ToolError(f"operation outcome {need} never explored in {cfg} (vacuity guard)")
    ctx.set("transition_kinds", kinds)
    if len(recs) < 1000:
        raise ToolError("too few transitions emitted")
    ctx.set("transitions_replayed", len(recs))
    res = run_vh(vh, "graph", recs, args=[base], jobs=8)
    handle(ctx, res, recs, "exhaustive-transition")
    ctx.sample({"mode": "transition", "hist": recs[len(recs) // 2]["hist"], "obs": recs[len(recs) // 2]["obs"]})

    # ---- canary: a corrupted expectation must be rejected by the same comparator
    can = json.loads(json.dumps(recs[len(recs) // 3]))
    can["obs"]["nodes"] = sorted(set(can["obs"]["nodes"]) ^ {"p1"})
    cres = run_vh(vh, "graph", [can], args=[base])
    if cres[-1]["summary"]["mismatches"] != 1:
        raise ToolError("canary (corrupted expected node set) was not rejected")
    ctx.set("canary_rejected", True)

    # ---- sampled: long histories over 6 paths, every step observed
    nsim = 30 if quick else 600  # TLC prints every successor of the last step: ~50 histories per trace
    rs = tlc("graph/MC_Graph.tla", cfg="MC_Graph_S6.cfg", workers=4, simulate=nsim, depth=41,
             seed=ctx.seed, tag="c21s", timeout=1500, coverage=False)
    beh = rs.tagged("B")
    if len(beh) < nsim:
        raise ToolError(f"simulation produced only {len(beh)} behaviours")
    res2 = run_vh(vh, "graph", beh, args=[base, "all-steps"], jobs=8)
    handle(ctx, res2, beh, "simulated-history")
    ctx.set("simulated_histories", len(beh))
    ctx.set("simulated_ops", res2[-1]["summary"]["ops"])
    ctx.sample({"mode": "simulated", "ops": [[o["op"], o["a"], o["b"], o["res"]] for o in beh[0]["hist"]]})

    # ---- P2, implementation -> specification: histories chosen outside the model (9 paths, 40-60 ops, far beyond
    # the bounded exploration) are applied to the real graph, every event is *recorded* with its outcome and all
    # public queries, and TLC validates the recorded trace against ModuleGraphRef (TraceGraph.tla)
    trace_validation(ctx, vh, base, nruns=60 if quick else 800, nops=40 if quick else 60)

    # ---- tsort on every small graph
    rt = tlc("graph/MC_TSort.tla", cfg="MC_TSort_q.cfg" if quick else "MC_TSort_t.cfg", workers=8,
             tag="c21t", timeout=1500, coverage=False, heap="8g")
    if not rt.ok:
        ctx.model_drift(f"TSort layer B disagrees with layer A: {rt.invariant_violated}")
    ctx.tlc_stats(rt, "TSort (all graphs)")
    gs = rt.tagged("G")
    if len(gs) < 1000:
        raise ToolError("too few graphs")
    res3 = run_vh(vh, "tsort", gs)
    for m in res3[:-1]:
        ctx.violation({"kind": "tsort-" + m["kind"], "expected": m.get("expected"), "observed": m.get("observed")},
                      {"graph": m["rec"], "mismatch": m, "reproduce": "bin/check C21 --replay <this file>"},
                      f"tsort {m['kind']} on {m['rec']}")
    ctx.set("tsort_graphs", len(gs))
    ctx.sample({"mode": "tsort", "graph": gs[len(gs) // 2]})

    ctx.set("traces_validated_against_impl", len(recs) + len(beh) + len(gs))
    ctx.set("exhaustive", True)
    ctx.set("explanation_bounds", "exhaustive: every transition of the reference state graph over 4 paths, "
            "histories <= 6 ops, one history per (graph, registration order); every graph over 3 (+1 dangling) "
            "names for tsort (4 names in thorough); sampled: histories of 40 ops over 6 paths")
    ctx.assumptions += [
        "rename_path is judged only for a fresh new name (not registered, not mentioned by an edge)",
        "a refused inc_ref may register the referrer (DESIGN 6/C21 named deviation)",
        "sort order is judged by the topological-order property, not a particular order"]


def gen_runs(seed, nruns, nops):
    """Operation sequences over p1..p9.  A rename target is a name never used before in the run (the reference
    action Rename is specified only for a fresh new name); every other argument is drawn from a core of 3-6
    names plus the names used so far."""
    import random
    rnd = random.Random(seed * 7919 + 21)
    U = [f"p{i}" for i in range(1, 10)]
    runs = []
    for _ in range(nruns):
        used, ops = set(), []
        core = U[:rnd.choice([3, 4, 5, 6])]
        for _ in range(nops):
            pool = sorted(set(core) | used)
            k = rnd.choices(["add", "incref", "remove", "rename", "sort"], [3, 8, 2, 2, 2])[0]
            a, b = rnd.choice(pool), rnd.choice(pool)
            if k == "rename":
                fresh = [p for p in U if p not in used]
                if not fresh:
                    continue
                b = rnd.choice(fresh)
                if a == b:
                    continue
            if k in ("add", "remove"):
                b = a
            if k == "sort":
                a = b = ""
            else:
                used.add(a)
                used.add(b)
            ops.append({"op": k, "a": a, "b": b})
        runs.append({"ops": ops, "universe": U})
    return runs


def validate_trace(events, path, tag):
    """TLC on TraceGraph.tla; returns the number of leading events explained by the specification."""
    with open(path, "w") as f:
        for e in events:
            f.write(json.dumps(e) + "\n")
    r = tlc("graph/TraceGraph.tla", cfg="TraceGraph.cfg", workers=1, coverage=False, tag=tag, timeout=1200,
            env_extra={"TRACE": path}, postcondition_ok=True, heap="4g")
    import re
    m = re.search(r'<<"MATCHED", (\d+), (\d+)>>', r.out)
    if not m or int(m.group(2)) != len(events):
        if r.invariant_violated:
            # the design invariant (Acyclic) failed on a state of the recorded execution
            return r, max(0, r.distinct - 1), r.invariant_violated
        raise ToolError("trace validation: no MATCHED line\n" + r.out[-1500:])
    return r, int(m.group(1)), None


def trace_validation(ctx, vh, base, nruns, nops):
    runs = gen_runs(ctx.seed, nruns, nops)
    events = run_vh(vh, "graph-record", runs, args=[base])
    if sum(1 for e in events if e["op"] == "reset") != len(runs):
        raise ToolError("graph-record: missing runs")
    tdir = scratch("c21trace")
    total, rejected, kinds = len(events), 0, {}
    for e in events:
        k = e["op"] + "/" + str(e["res"]) if e["op"] != "panic" else "panic"
        kinds[k] = kinds.get(k, 0) + 1
    for need in ("incref/ok", "incref/cycle", "remove/ok", "rename/ok", "sort/ok", "sort/dangling"):
        if not kinds.get(need):
            raise ToolError(f"trace validation: recorded runs never show {need} (vacuity guard)")
    rounds, accepted = 0, False
    while events and rounds < 12:
        rounds += 1
        r, k, inv = validate_trace(events, os.path.join(tdir, "trace.ndjson"), "c21tv")
        if rounds == 1:
            ctx.tlc_stats(r, "TraceGraph (recorded executions of the real ModuleGraph validated against ModuleGraphRef)")
        if k == len(events) and inv is None:
            accepted = True
            break
        # event k+1 is not a behaviour of the specification: report it, drop its run, validate the rest
        ev = events[k] if k < len(events) else events[-1]
        rejected += 1
        run_i = ev["run"]
        ops = runs[run_i]["ops"][:ev["step"]]
        prev = events[k - 1] if k > 0 else {}
        ctx.violation({"kind": "trace-rejected" if ev["op"] != "panic" else "panic", "after": ev.get("during", ev["op"]),
                       "query": inv},
                      {"mode": "recorded-trace", "ops": ops, "rejected_event": ev, "state_before": prev,
                       "reproduce": "bin/check C21 --replay <this file>"},
                      f"recorded execution of ModuleGraph is not a behaviour of ModuleGraphRef at step {ev['step']} "
                      f"({ev.get('during', ev['op'])} {ev['a']} {ev['b']} -> {ev['res']})")
        events = [e for e in events if e["run"] != run_i]
    ctx.set("trace_events_recorded", total)
    ctx.set("trace_runs", len(runs))
    ctx.set("trace_event_kinds", kinds)
    ctx.set("trace_runs_rejected", rejected)
    ctx.sample({"mode": "recorded-trace", "ops": [[o["op"], o["a"], o["b"]] for o in runs[0]["ops"][:12]]})
    # canary, on events the specification has just accepted: one corrupted recorded field must make TLC stop exactly there
    if not accepted or len(events) < 200:
        ctx.set("trace_canary_rejected_at_event", "not run: fewer than 200 accepted events")
        return
    bad = json.loads(json.dumps(events[:400]))
    at = next(i for i in range(min(150, len(bad) // 2), len(bad)) if any(bad[i].get("anc", {}).get(p) for p in bad[i].get("anc", {})))
    p0 = next(p for p in bad[at]["anc"] if bad[at]["anc"][p])
    bad[at]["anc"][p0] = bad[at]["anc"][p0][1:]
    _, k, _ = validate_trace(bad, os.path.join(tdir, "canary.ndjson"), "c21tc")
    if k != at:
        raise ToolError(f"trace canary: corrupted event {at + 1} but TLC matched {k} events")
    ctx.set("trace_canary_rejected_at_event", at + 1)


def handle(ctx, res, recs, mode):
    for m in res[:-1]:
        hist = [{k: o[k] for k in ("op", "a", "b", "res")} for o in m["hist"]]
        ctx.violation(sig_of(m),
                      {"mode": mode, "history": hist, "mismatch": {k: v for k, v in m.items() if k != "hist"},
                       "reproduce": "bin/check C21 --replay <this file>"},
                      f"{m['kind']} after {m.get('op')}: {json.dumps(m.get('detail'))[:300]}")


def replay(path):
    vh, _ = build_core()
    doc = json.load(open(path))
    base = scratch("c21r")
    if "ops" in doc:
        evs = run_vh(vh, "graph-record", [{"ops": doc["ops"], "universe": [f"p{i}" for i in range(1, 10)]}], args=[base])
        _, k, inv = validate_trace(evs, os.path.join(scratch("c21trace-r"), "trace.ndjson"), "c21tr")
        print(f"recorded {len(evs)} events; the specification explains the first {k}" + (f"; invariant {inv}" if inv else ""))
        if k < len(evs):
            print("first unexplained event:", json.dumps(evs[k]))
        return 0
    if "graph" in doc:
        res = run_vh(vh, "tsort", [doc["graph"]])
    else:
        print("replay needs the TLC record; re-run the check to regenerate it (history printed below)")
        print(json.dumps(doc["history"]))
        return 0
    print(json.dumps(res, indent=1))
    return 0
