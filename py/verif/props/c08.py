"""C08 The lexer is total and reports faithful token positions.

LexerRef.tla is a character-level reference tokenizer whose input is chosen nondeterministically
step by step, so TLC's state graph contains every input up to MaxLen over the alphabet together
with the reference tokens and their positions.  Every input is lexed by the real lexer
in-process (under catch_unwind with a watchdog): no crash or hang; an Ok stream ends with EOF,
has as many Dedents as Indents, is ordered by position, and its identifier / number / string /
`+` / parenthesis tokens sit exactly where the reference puts them; an Err result carries at
least one error.  Long random inputs over a wide alphabet (tabs, bidi, astral characters,
interpolation braces ...) are judged for totality, stream shape and the verbatim rule."""
import json
from ..common import *

CONC = {"a": "a", "n": "n", "e": "é", "1": "1", "s": " ", "l": "\n", "q": '"', "b": "\\", "p": "+", "o": "(", "c": ")",
        "h": "#", "t": "\t", "u": "‮", "x": "\U0001F600", "k": "{", "K": "}", "g": "'", "m": "!", "d": ".", "i": "-",
        "r": "*", "w": ":", "y": "=", "z": "_", "v": ",", "f": "[", "F": "]"}
KIND = {"Symbol": "id", "NatLit": "num", "StrLit": "str", "StrInterpLeft": "str", "StrInterpMid": "str", "StrInterpRight": "str", "Plus": "p", "PrePlus": "p", "LParen": "o", "RParen": "c"}
LAYOUT = {"Newline", "Indent", "Dedent", "EOF"}
VERBATIM = {"Symbol", "NatLit", "IntLit", "Plus", "PrePlus", "Minus", "PreMinus", "Star", "LParen", "RParen", "LSqBr", "RSqBr",
            "LBrace", "RBrace", "Colon", "Assign", "Comma", "Dot", "DblColon", "Pow", "Walrus", "DblEq"}


def lex_all(vh, recs):
    """run the lexer harness, resubmitting the remainder after a hang"""
    out = []
    pending = recs
    while pending:
        inp = "\n".join(json.dumps(r) for r in pending) + "\n"
        p = subprocess.run([vh, "lex", "4000"], input=inp, stdout=subprocess.PIPE, stderr=subprocess.PIPE, text=True, timeout=1800)
        got = [json.loads(l) for l in p.stdout.splitlines() if l.startswith("{")]
        out.extend(got)
        if p.returncode == 3:
            pending = pending[len(got):]
        elif p.returncode != 0:
            if p.returncode < 0 or "stack overflow" in p.stderr:
                # abort of the whole process (stack overflow): the record after the last answer did it
                k = len(got)
                out.append({"id": pending[k]["id"], "abort": p.stderr[-200:]})
                pending = pending[k + 1:]
            else:
                raise ToolError(f"vh lex failed rc={p.returncode}: {p.stderr[-500:]}")
        else:
            pending = []
    return out


def judge(ctx, src, o, ref, label):
    """returns True if positions were compared"""
    if "panic" in o or "hang" in o or "abort" in o:
        site = o.get("panic") or ("hang" if "hang" in o else "abort")
        ctx.violation({"kind": "lexer-crash", "site": re.sub(r":\d+", "", site)[:100]}, {"src": src, "result": o},
                      f"lexer crashed on {src!r}: {site}")
        return False
    toks = o.get("toks", [])
    if not o.get("ok"):
        if o.get("nerrs", 0) < 1:
            ctx.violation({"kind": "err-without-errors"}, {"src": src}, f"Err result without errors on {src!r}")
        return False
    # Ok stream shape
    kinds = [t[0] for t in toks]
    if not kinds or kinds[-1] != "EOF":
        ctx.violation({"kind": "no-eof"}, {"src": src, "toks": toks}, f"token stream of {src!r} does not end with EOF")
        return False
    if kinds.count("Indent") != kinds.count("Dedent"):
        ctx.violation({"kind": "indent-dedent-imbalance"}, {"src": src, "toks": toks},
                      f"{kinds.count('Indent')} Indent vs {kinds.count('Dedent')} Dedent on {src!r}")
    lines = src.split("\n")
    prev = (0, 0)
    for k, content, ln, col, ln2, col2 in toks:
        if k in LAYOUT:
            continue
        if (ln, col) < prev:
            ctx.violation({"kind": "positions-not-in-source-order"}, {"src": src, "toks": toks},
                          f"token {k} {content!r} at {ln}:{col} precedes an earlier token on {src!r}")
            break
        prev = (ln, col)
        if k in VERBATIM:
            ok = 1 <= ln <= len(lines) and lines[ln - 1][col:col + len(content)] == content
            if not ok:
                after_escape = "\\" in "\n".join(lines[:ln])[: sum(len(l) + 1 for l in lines[:ln - 1]) + col + 2]
                ctx.violation({"kind": "token-not-at-reported-position", "token": k, "after_backslash_on_line": "\\" in lines[ln - 1] if 1 <= ln <= len(lines) else None},
                              {"src": src, "token": [k, content, ln, col], "toks": toks},
                              f"{k} {content!r} reported at {ln}:{col} but the source there is {lines[ln - 1][col:col + len(content)] if 1 <= ln <= len(lines) else None!r} ({src!r})")
                break
    if ref is None or ref["outcome"] != "ok":
        return False
    got = [[KIND.get(t[0], t[0]), t[2], t[3]] for t in toks if t[0] not in LAYOUT]
    if any(g[0] not in ("id", "num", "str", "p", "o", "c") for g in got):
        ctx.add("unmodelled_token_kinds")
        return False
    exp = [[t[0], t[1], t[2]] for t in ref["toks"]]
    if got != exp:
        first = next((i for i in range(min(len(got), len(exp))) if got[i] != exp[i]), min(len(got), len(exp)))
        kind = "token-position-mismatch" if len(got) == len(exp) and all(g[0] == e[0] for g, e in zip(got, exp)) else "token-sequence-mismatch"
        ctx.violation({"kind": kind, "after_escape": "\\" in src},
                      {"src": src, "expected": exp, "observed": got, "first_difference": first},
                      f"{kind} on {src!r}: expected {exp} observed {got}")
    return True


def run(ctx):
    vh, _ = build_core()
    quick = ctx.tier == "quick"
    cfg = "MC_Lexer_q.cfg" if quick else "MC_Lexer_t.cfg"
    r = tlc("lex/MC_Lexer.tla", cfg=cfg, workers=8, coverage=False, heap="12g", tag="c08", timeout=2400)
    if not r.ok:
        raise ToolError("LexerRef.tla violates its own invariant")
    ctx.tlc_stats(r, f"LexerRef {cfg}")
    refs = r.tagged("X")
    if len(refs) < 50000:
        raise ToolError("too few inputs")
    # layout alphabet {a, space, LF} to length 10, and inputs continuing an interpolated string
    for extra, tag in (("MC_Lexer_layout.cfg", "layout"), ("MC_Lexer_interp.cfg", "interp")):
        rx = tlc("lex/MC_Lexer.tla", cfg=extra, workers=8, coverage=False, heap="8g", tag="c08" + tag, timeout=1200)
        if not rx.ok:
            raise ToolError(f"LexerRef.tla violates its own invariant ({extra})")
        ctx.tlc_stats(rx, f"LexerRef {extra}")
        more = rx.tagged("X")
        if len(more) < 20000:
            raise ToolError(f"too few inputs from {extra}")
        refs += more
    recs = [{"id": i, "src": "".join(CONC[c] for c in x["input"])} for i, x in enumerate(refs)]
    parts = list(chunks(recs, (len(recs) + 11) // 12))
    from concurrent.futures import ThreadPoolExecutor
    with ThreadPoolExecutor(max_workers=12) as ex:
        outs = list(ex.map(lambda p: lex_all(vh, p), parts))
    compared = total = 0
    ref_err_impl_ok = ref_ok_impl_err = 0
    for out in outs:
        for o in out:
            x = refs[o["id"]]
            total += 1
            if x["outcome"] == "err" and o.get("ok"):
                ref_err_impl_ok += 1
            if x["outcome"] == "ok" and o.get("ok") is False:
                ref_ok_impl_err += 1
            if judge(ctx, recs[o["id"]]["src"], o, x, "exhaustive"):
                compared += 1
    if total != len(recs):
        raise ToolError(f"lexed {total} of {len(recs)} inputs")
    ctx.set("inputs_exhaustive", total)
    ctx.set("inputs_with_positions_compared", compared)
    ctx.set("ref_err_but_lexer_ok", ref_err_impl_ok)
    ctx.set("ref_ok_but_lexer_err", ref_ok_impl_err)
    if compared < total // 10:
        raise ToolError("vacuous: positions compared on too few inputs")
    # long random inputs over the wide alphabet
    sim = tlc("lex/MC_Lexer.tla", cfg="MC_Lexer_sim.cfg", workers=2, coverage=False, tag="c08s",
              simulate=6 if quick else 120, depth=41, seed=ctx.seed, timeout=1200)
    sims = [x for x in sim.tagged("X") if len(x["input"]) >= 8][: (6000 if quick else 100000)]
    srecs = [{"id": i, "src": "".join(CONC[c] for c in x["input"])} for i, x in enumerate(sims)]
    # corpus files as well
    import glob
    for f in sorted(glob.glob(os.path.join(REPO, "tests", "should_ok", "*.er")) + glob.glob(os.path.join(REPO, "examples", "*.er")))[:400]:
        try:
            srecs.append({"id": len(srecs), "src": open(f, encoding="utf-8").read()})
        except Exception:
            pass
    parts = list(chunks(srecs, (len(srecs) + 11) // 12))
    with ThreadPoolExecutor(max_workers=12) as ex:
        outs = list(ex.map(lambda p: lex_all(vh, p), parts))
    n2 = 0
    for out in outs:
        for o in out:
            n2 += 1
            judge(ctx, srecs[o["id"]]["src"], o, None, "random")
    ctx.set("inputs_random_and_corpus", n2)
    # canary: a shifted reference column must be reported
    class Dummy:
        def __init__(self): self.n = 0
        def violation(self, *a, **k): self.n += 1
        def add(self, *a): pass
    dm = Dummy()
    o = run_vh(vh, "lex", [{"src": "a + 1"}])[0]
    judge(dm, "a + 1", o, {"outcome": "ok", "toks": [["id", 1, 0, 1], ["p", 1, 3, 1], ["num", 1, 4, 1]]}, "canary")
    if dm.n != 1:
        raise ToolError("canary (shifted reference column) not rejected")
    ctx.set("canary_rejected", True)
    ctx.set("traces_validated_against_impl", total + n2)
    ctx.set("exhaustive", True)
    ctx.sample({"input": recs[len(recs) // 2]["src"], "reference": refs[len(recs) // 2]})
    ctx.sample({"random_input": srecs[0]["src"]})
    ctx.assumptions += ["reference tokenizer covers identifiers, numbers, single-line strings with escapes, +, parentheses, comments; other constructs are judged for totality, stream shape and the verbatim rule only",
                        "inputs the lexer rejects are not compared for positions"]


def replay(path):
    vh, _ = build_core()
    doc = json.load(open(path))
    print(json.dumps(run_vh(vh, "lex", [{"src": doc["src"]}]), indent=1))
    return 0
