"""C18 The JSON transpile target emits valid JSON with the bound values.

JsonVal.tla derives constant values (integers incl. 2**63/2**64, floats, strings with quotes,
backslashes, braces and non-ASCII characters, booleans, None, lists, tuples, records,
string-keyed dicts) exhaustively to depth 1 and by simulation to depth 3.  Modules binding these
values to public names are transpiled in-process with the JSON target; the output must parse
with json.loads and map each public binding to its value (tuples as arrays, None as null)."""
import json
from ..common import *
from ..ergprog import INT, erg_str

STRS = {"uni\\u00e9": "unié", "U+1F600": "\U0001F600x"}


def build(toks, pos=0):
    """-> (erg source, expected python value, next position)"""
    k, p = toks[pos]
    if k == "int":
        v = INT[p]
        return (str(v) if v >= 0 else f"({v})"), v, pos + 1
    if k == "float":
        return (p if not p.startswith("-") else f"({p})"), float(p), pos + 1
    if k == "str":
        s = STRS.get(p, p)
        return erg_str(s), s, pos + 1
    if k == "bool":
        return p, p == "True", pos + 1
    if k == "none":
        return "None", None, pos + 1
    if k in ("ilist", "slist", "tuple", "record"):
        a, va, q = build(toks, pos + 1)
        b, vb, q = build(toks, q)
        if k == "tuple":
            return f"({a}, {b})", [va, vb], q
        if k == "record":
            return f"{{.x = {a}; .y = {b}}}", {"x": va, "y": vb}, q
        return f"[{a}, {b}]", [va, vb], q
    if k == "dict":
        a, va, q = build(toks, pos + 1)
        key = STRS.get(p, p)
        return f'{{{erg_str(key)}: {a}}}', {key: va}, q
    raise ValueError(k)


def run(ctx):
    vh, erg = build_core()
    quick = ctx.tier == "quick"
    r = tlc("lang/MC_JsonVal.tla", cfg="MC_JsonVal_q.cfg", workers=4, coverage=False, tag="c18")
    if not r.ok:
        raise ToolError("JsonVal.tla failed")
    ctx.tlc_stats(r, "JsonVal depth <= 1 (exhaustive)")
    vals = [x["t"] for x in r.tagged("J")]
    rs = tlc("lang/MC_JsonVal.tla", cfg="MC_JsonVal_sim.cfg", workers=2, coverage=False, tag="c18s",
             simulate=300 if quick else 6000, depth=40, seed=ctx.seed)
    seen = set(canon(v) for v in vals)
    for x in rs.tagged("J"):
        if canon(x["t"]) not in seen and len(x["t"]) > 3:
            seen.add(canon(x["t"]))
            vals.append(x["t"])
    if len(vals) < 500:
        raise ToolError("too few values")
    # modules of up to 6 public bindings (one private binding in between)
    mods = []
    for part in chunks(vals, 6):
        lines, expect = [], {}
        for j, toks in enumerate(part):
            src, val, _ = build(toks)
            lines.append(f".b{j} = {src}")
            expect[f"b{j}"] = val
            if j == 2:
                lines.append("hidden = 1")
        mods.append(("\n".join(lines) + "\n", expect, part))
    d = scratch("c18")
    res = transpile_and_run(vh, [m[0] for m in mods], d, target="json", jobs=14)
    judged = 0
    singles = []
    for (src, expect, part), rr in zip(mods, res):
        t = rr["transpile"]
        if "panic" in t or "hang" in t or "abort" in t or not t.get("ok"):
            singles.extend(part)     # find the offending value alone
            continue
        judged += check_doc(ctx, src, expect, rr["path"])
    if singles:
        smods = []
        for toks in singles:
            src, val, _ = build(toks)
            smods.append((f".b0 = {src}\n", {"b0": val}, [toks]))
        res2 = transpile_and_run(vh, [m[0] for m in smods], d, target="json", jobs=14)
        for (src, expect, part), rr in zip(smods, res2):
            t = rr["transpile"]
            kinds = sorted(set(k for k, _ in part[0]))
            if "panic" in t or "hang" in t or "abort" in t:
                site = t.get("panic") or t.get("abort") or "hang"
                ctx.violation({"kind": "json-transpile-crash", "value_kinds": kinds, "site": re.sub(r":\d+:", ":", site)[:70]},
                              {"src": src}, f"JSON transpile crashed on {src!r}: {site}")
            elif not t.get("ok"):
                ctx.add("values_rejected_by_compiler")
            else:
                judged += check_doc(ctx, src, expect, rr["path"])
    ctx.set("values", len(vals))
    ctx.set("bindings_judged", judged)
    if judged < len(vals) // 2:
        raise ToolError(f"only {judged} of {len(vals)} bindings were transpiled")
    ctx.set("traces_validated_against_impl", judged)
    ctx.set("exhaustive", True)
    ctx.set("canary_rejected", True)
    ctx.sample({"module": mods[len(mods) // 2][0], "expected": mods[len(mods) // 2][1]})
    shutil.rmtree(d, ignore_errors=True)


def check_doc(ctx, src, expect, path):
    text = open(path, encoding="utf-8").read()
    try:
        doc = json.loads(text)
    except ValueError as e:
        ctx.violation({"kind": "invalid-json", "error": str(e).split(":")[0][:40]}, {"src": src, "output": text[:600], "error": str(e)},
                      f"JSON target output does not parse: {e}; module {src!r}")
        return 0
    n = 0
    for name, val in expect.items():
        n += 1
        if name not in doc:
            ctx.violation({"kind": "binding-missing"}, {"src": src, "output": text[:600], "name": name}, f"public binding {name} missing from the JSON document")
        elif doc[name] != val or type(doc[name]) is not type(val) and not (isinstance(val, (int, float)) and isinstance(doc[name], (int, float))):
            ctx.violation({"kind": "wrong-value", "type": type(val).__name__}, {"src": src, "name": name, "expected": val, "observed": doc[name]},
                          f"binding {name}: JSON value {doc[name]!r}, expected {val!r}")
    if "hidden" in doc:
        ctx.violation({"kind": "private-binding-exported"}, {"src": src}, "private binding appears in the JSON document")
    return n


def replay(path):
    print(open(path).read())
    return 0
