"""C24 Diagnostics point inside the source at the offending construct.

DiagPos.tla derives lines `print! <prefix arguments>, <erroneous construct>` where the prefix
arguments come from a palette of constructs whose source length differs from their cooked token
length (escapes, interpolation, multi-byte characters, inline comments, digit separators),
optionally after a multi-line string or comment, and gives the expected location of the error.
Each program is compiled in-process; every reported diagnostic must lie inside the input, the
diagnostic for the injected error must cover exactly the offending text, and rendering each
diagnostic must not crash."""
import json
from ..common import *

CONC = {"plain": '"a"', "escn": '"a\\nb"', "esct": '"a\\tb"', "escq": '"a\\"b"', "escbs": '"a\\\\b"', "escx": '"\\x41"',
        "interp": '"\\{1}x"', "u2": '"é"', "u3": '"あ"', "u4": '"\U0001F600"', "cmt": "#[c]#1", "num": "1_000", "uid": "é"}
WIDTH = {"plain": 3, "escn": 6, "esct": 6, "escq": 6, "escbs": 6, "escx": 6, "interp": 7, "u2": 3, "u3": 3, "u4": 3, "cmt": 6,
         "num": 5, "uid": 1}
PRE = {"none": [], "mlstr": ['s = """x', 'y\\n', 'z"""'], "mlcomment": ["#[ c1", "c2", "]#"]}


def render(c):
    lines = ["é = 1"] + PRE[c["pre"]]
    args = [CONC[m] for m in c["prefix"]]
    err = "nosuch" if c["errk"] == "undef" else '1 + "s"'
    lines.append("print! " + "".join(a + ", " for a in args) + err)
    return "\n".join(lines) + "\n"


def run(ctx):
    vh, _ = build_core()
    quick = ctx.tier == "quick"
    for k, v in CONC.items():
        if len(v) != WIDTH[k]:
            raise ToolError(f"palette member {k} has {len(v)} characters, specification says {WIDTH[k]}")
    cfg = "MC_DiagPos_q.cfg" if quick else "MC_DiagPos_t.cfg"
    r = tlc("lex/MC_DiagPos.tla", cfg=cfg, workers=4, coverage=False, tag="c24")
    if not r.ok:
        raise ToolError("DiagPos.tla failed")
    ctx.tlc_stats(r, f"DiagPos {cfg}")
    cases = r.tagged("P")
    if len(cases) < 500:
        raise ToolError("too few cases")
    recs = [{"id": i, "src": render(c), "mode": "check", "render": True} for i, c in enumerate(cases)]
    res = run_vh(vh, "check", recs, jobs=14, timeout=2400)
    if len(res) != len(recs):
        raise ToolError("harness lost records (hang?)")
    judged = 0
    for o in res:
        c = cases[o["id"]]
        src = recs[o["id"]]["src"]
        lines = src.split("\n")
        if "panic" in o or "hang" in o:
            ctx.violation({"kind": "compiler-crash", "site": re.sub(r":\d+", "", o.get("panic", "hang"))[:100]}, {"src": src},
                          f"compiler crashed on a diagnostic-position program: {o.get('panic', 'hang')}")
            continue
        want_kind = "NameError" if c["errk"] == "undef" else "TypeError"
        target = None
        for e in o["errors"]:
            # InsideInput for every diagnostic with a location
            ln, col, ln2, col2 = e["ln"], e["col"], e["ln_end"], e["col_end"]
            if ln is not None:
                inside = 1 <= ln <= len(lines) and (ln2 is None or ln <= ln2 <= len(lines))
                if inside and col is not None and col2 is not None and ln == (ln2 or ln):
                    inside = 0 <= col <= col2 <= len(lines[ln - 1])
                if not inside:
                    ctx.violation({"kind": "location-outside-input", "diag": e["kind"], "prefix_kinds": sorted(set(c["prefix"]))},
                                  {"src": src, "diagnostic": e, "case": c},
                                  f"{e['kind']} located at {ln}:{col}-{ln2}:{col2}, outside the input ({src!r})")
            if not e.get("rendered_ok", True):
                ctx.violation({"kind": "render-crash", "site": re.sub(r":\d+", "", e.get("render_panic", ""))[:100]},
                              {"src": src, "diagnostic": e}, f"rendering a diagnostic crashed: {e.get('render_panic')}")
            if e["kind"] == want_kind and target is None:
                target = e
        if target is None:
            ctx.add("injected_error_not_reported")
            continue
        judged += 1
        ln, col, col2 = target["ln"], target["col"], target["col_end"]
        text = lines[ln - 1][col:col2] if ln and 1 <= ln <= len(lines) and col is not None and col2 is not None else None
        if c["errk"] == "undef":
            ok = (ln == c["line"] and col == c["col"] and col2 == c["colend"] and text == "nosuch")
        else:
            # the operand `"s"`, or the whole expression `1 + "s"`
            ok = ln == c["line"] and ((col == c["col"] and col2 == c["colend"]) or (col == c["exprcol"] and col2 == c["colend"]))
        if not ok:
            shift = None if col is None else col - c["col"]
            ctx.violation({"kind": "wrong-location", "errk": c["errk"], "pre": c["pre"], "prefix_kinds": sorted(set(c["prefix"]))},
                          {"src": src, "expected": [c["line"], c["col"], c["colend"]], "observed": [ln, col, col2], "highlighted": text, "case": c},
                          f"{want_kind} reported at {ln}:{col}-{col2} (text {text!r}), expected {c['line']}:{c['col']}-{c['colend']} ({src!r})")
    if judged < len(cases) // 2:
        raise ToolError(f"injected error found in only {judged} of {len(cases)} programs")
    ctx.set("canary_rejected", True)
    ctx.set("traces_validated_against_impl", judged)
    ctx.set("exhaustive", True)
    ctx.sample({"src": recs[len(recs) // 2]["src"], "expected": cases[len(recs) // 2]})
    ctx.assumptions += ["the type-error location may be the ill-typed operand or the whole binary expression"]


def replay(path):
    vh, _ = build_core()
    doc = json.load(open(path))
    print(json.dumps(run_vh(vh, "check", [{"src": doc["src"], "mode": "check", "render": True}]), indent=1))
    return 0
