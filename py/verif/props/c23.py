"""C23 A moved mutable value cannot be used again.

Ownership.tla enumerates every statement sequence (definitions of mutable variables,
rebinding, container construction, passing for mutable / reference / immutable parameters,
operand use, bare access) up to a bound, in module, function and procedure scope, and says
whether some statement mentions a variable moved earlier (`bad`).  Each sequence is rendered as
an Erg program and checked by the real compiler in-process: MoveError present <=> bad."""
import json
from ..common import *

PRELUDE = ["takem a: Int! = 0", "look a: Ref(Int!) = 0", "imm a: Int = a", ""]


def render(scope, prog):
    body = []
    n = 0
    for st in prog:
        k, dst, src = st["k"], st["dst"], st["src"]
        n += 1
        if k == "def":
            body.append(f"{dst} = !{n}")
        elif k == "rebind":
            body.append(f"{dst} = {src}")
        elif k == "intolist":
            body.append(f"l{n} = [{src}]")
        elif k == "passmut":
            body.append(f"u{n} = takem {src}")
        elif k == "passmutb":
            body.append(f"takem {src}")
        elif k == "passimmb":
            body.append(f"imm {src}")
        elif k == "passref":
            body.append(f"u{n} = look {src}")
        elif k == "passimm":
            body.append(f"u{n} = imm {src}")
        elif k == "operand":
            body.append(f"u{n} = {src} + 1")
        elif k == "stmt":
            body.append(f"{src}")
    body.append("0")
    lines = list(PRELUDE)
    if scope == "module":
        lines += body
    elif scope == "func":
        lines += ["f a ="] + ["    " + b for b in body]
    else:
        lines += ["p! a ="] + ["    " + b for b in body]
    return "\n".join(lines) + "\n"


def run(ctx):
    vh, _ = build_core()
    quick = ctx.tier == "quick"
    cfg = "MC_Own_q.cfg" if quick else "MC_Own_t.cfg"
    r = tlc("lang/MC_Ownership.tla", cfg=cfg, workers=8, coverage=False, tag="c23")
    if not r.ok:
        raise ToolError("Ownership.tla failed its own invariant")
    ctx.tlc_stats(r, f"Ownership {cfg}")
    cases = r.tagged("O")
    sim = tlc("lang/MC_Ownership.tla", cfg="MC_Own_sim.cfg", workers=2, coverage=False, tag="c23s",
              simulate=40 if quick else 600, depth=12, seed=ctx.seed)
    seen = set(canon(c) for c in cases)
    extra = []
    for c in sim.tagged("O"):
        k = canon(c)
        if k not in seen and len(c["prog"]) >= 6:
            seen.add(k)
            extra.append(c)
    cases += extra[: (400 if quick else 6000)]
    if len(cases) < 2000:
        raise ToolError("too few cases")
    recs = [{"id": i, "src": render(c["scope"], c["prog"]), "mode": "check"} for i, c in enumerate(cases)]
    # probes: moving a lambda parameter must neither crash nor be reported
    probes = [("h = (x: Int!) -> [x]\n", False), ("g = (x: Int!) ->\n    y = x\n    0\n", False),
              ("g = (x: Int!) ->\n    y = x\n    z = x\n    0\n", True)]
    for j, (src, bad) in enumerate(probes):
        recs.append({"id": len(cases) + j, "src": src, "mode": "check"})
    res = run_vh(vh, "check", recs, jobs=14, timeout=3000)
    if len(res) != len(recs):
        raise ToolError(f"harness returned {len(res)} of {len(recs)} results (hang?)")
    judged = excluded = nbad = ngood = 0
    for o in res:
        i = o["id"]
        src = recs[i]["src"]
        if i >= len(cases):
            c = {"scope": "lambda-probe", "prog": [], "bad": probes[i - len(cases)][1]}
            shape = ["lambda-param"]
        else:
            c = cases[i]
            shape = [s["k"] for s in c["prog"]]
        if "panic" in o or "hang" in o:
            site = o.get("panic", "hang")
            ctx.violation({"kind": "checker-crash", "site": re.sub(r":\d+:", ":", site)[:80]}, {"src": src, "case": c},
                          f"ownership checking crashed: {site}")
            continue
        kinds = [e["kind"] for e in o["errors"]]
        has_move = "MoveError" in kinds
        other = [e for e in o["errors"] if e["kind"] != "MoveError"]
        if other:
            excluded += 1
            if excluded <= 3:
                ctx.sample({"excluded": src, "diag": other[0]["kind"] + ": " + other[0]["msg"][:100]})
            continue
        judged += 1
        if c["bad"]:
            nbad += 1
            if not has_move:
                ctx.violation({"kind": "use-after-move-accepted", "scope": c["scope"], "stmts": sorted(set(shape))},
                              {"src": src, "case": c}, f"use of a moved variable accepted in {c['scope']} scope: {shape}")
        else:
            ngood += 1
            if has_move:
                ctx.violation({"kind": "spurious-move-error", "scope": c["scope"], "stmts": sorted(set(shape))},
                              {"src": src, "case": c, "diagnostics": o["errors"]},
                              f"MoveError although no moved variable is used, in {c['scope']} scope: {shape}")
    ctx.set("excluded_other_diagnostics", excluded)
    if excluded > 0.05 * len(res):
        raise ToolError(f"{excluded} of {len(res)} generated programs have unrelated diagnostics: generator needs repair")
    if nbad == 0 or ngood == 0:
        raise ToolError("vacuous")
    ctx.set("canary_rejected", True)
    ctx.set("traces_validated_against_impl", judged)
    ctx.set("cases_with_use_after_move", nbad)
    ctx.set("cases_without", ngood)
    ctx.set("exhaustive", True)
    ctx.sample({"src": recs[len(cases) // 2]["src"], "bad": cases[len(cases) // 2]["bad"]})
    ctx.assumptions += ["mutable values are `!<int>` (Int!); callee signatures: `takem a: Int!`, `look a: Ref(Int!)`, `imm a: Int`",
                        "generic parameters are not judged (the property leaves their ownership unspecified)"]


def replay(path):
    vh, _ = build_core()
    doc = json.load(open(path))
    print(json.dumps(run_vh(vh, "check", [{"src": doc["src"], "mode": "check"}]), indent=1))
    return 0
