"""C11 Operator expressions parse by the documented precedence table.

Precedence.tla derives token sequences (operands, 28 binary operators, prefix + - ~, member
access, parentheses) and gives each its reference tree by precedence climbing from the
documented table.  Every sequence is rendered with three spacing styles, parsed by the real
SimpleParser in-process, and the S-expression of the AST must equal the reference tree."""
import json
from ..common import *

PROBES = [("(a).m.n", "(. (. a m) n)"), ("(a).m.n()", "(mcall (. a m) n)"), ("a.m.n.o", "(. (. (. a m) n) o)"),
          ("-2 ** 2", "(** -2 2)"), ("a - -1", "(- a -1)"), ("a-1", "(- a 1)")]
WORD_OPS = {"in", "notin", "is!", "isnot!", "and", "or"}


def render(toks, style):
    out = []
    for i, (k, s) in enumerate(toks):
        if k == "bin":
            if style == 0 or s in WORD_OPS or s.startswith("!"):  # `a!= b` would lex the identifier `a!`
                out.append(f" {s} ")
            elif style == 1:
                out.append(f"{s} ")
            else:
                out.append(f"  {s}  ")
        elif k == "attr":
            out.append(".m")
        elif k == "mcall":
            out.append(".m()")
        else:
            out.append(s)
    return "".join(out)


def has_prefix_op(toks):
    for i, (k, s) in enumerate(toks):
        if k == "pre" and not (s == "-" and i + 1 < len(toks) and toks[i + 1][0] == "num"):
            return True
    return False


def norm(sx):
    # the desugarer rewrites `a in b` to `b contains a`; undo for comparison
    return sx


def run(ctx):
    vh, _ = build_core()
    quick = ctx.tier == "quick"
    plan = [("MC_Prec_pairs.cfg", None), ("MC_Prec_prefix.cfg", None),
            ("MC_Prec_deep.cfg" if quick else "MC_Prec_deep_t.cfg", None),
            ("MC_Prec_sim.cfg", 400 if quick else 20000)]
    total = mismatches = 0
    nontrivial = 0
    seen = set()
    for cfg, sim in plan:
        r = tlc("parse/MC_Prec.tla", cfg=cfg, workers=8 if not sim else 2, coverage=False, heap="8g", tag="c11",
                simulate=sim, depth=60 if sim else None, seed=ctx.seed, timeout=2400)
        if not r.ok:
            raise ToolError(f"Precedence.tla violates its own invariant {r.invariant_violated} ({cfg})")
        if not sim:
            ctx.tlc_stats(r, f"Precedence {cfg}")
        exprs = []
        for x in r.tagged("E"):
            k = canon(x["toks"])
            if k not in seen:
                seen.add(k)
                exprs.append(x)
        if len(exprs) < 300:
            raise ToolError(f"too few expressions from {cfg}: {len(exprs)}")
        recs = []
        for i, x in enumerate(exprs):
            for st in (0, 1, 2):
                recs.append({"id": [i, st], "src": render(x["toks"], st)})
        res = run_vh(vh, "parse-expr", recs, jobs=8)
        if len(res) != len(recs):
            raise ToolError("harness lost records")
        for o in res:
            i, st = o["id"]
            x = exprs[i]
            total += 1
            nbin = sum(1 for t in x["toks"] if t[0] in ("bin", "pre"))
            if nbin >= 2 and st == 0:
                nontrivial += 1
            exp = x["tree"]
            if "panic" in o:
                ctx.violation({"kind": "parser-panic", "site": o["panic"]}, {"src": o["src"], "toks": x["toks"]},
                              f"parser panicked on {o['src']!r}: {o['panic']}")
                continue
            got = o.get("sexpr") if o.get("ok") else None
            if got == exp:
                continue
            mismatches += 1
            if got is not None and got == x["btree"] and has_prefix_op(x["toks"]):
                sig = {"kind": "prefix-operand-extent"}
            elif got is None:
                sig = {"kind": "rejected-valid-expression", "ops": sorted(set(t[1] for t in x["toks"] if t[0] in ("bin", "pre"))), "style": st}
            else:
                sig = {"kind": "tree-mismatch", "ops": [t[1] for t in x["toks"] if t[0] in ("bin", "pre")], "style": st}
            ctx.violation(sig, {"src": o["src"], "toks": x["toks"], "expected": exp, "observed": got,
                                "layerB_prediction": x["btree"], "reproduce": "bin/check C11 --replay <this file>"},
                          f"{o['src']!r} parsed as {got} expected {exp}")
        ctx.sample({"src": render(exprs[len(exprs) // 2]["toks"], 0), "tree": exprs[len(exprs) // 2]["tree"]})
    # named probes for constructs kept out of the generator's grammar
    for src, exp in PROBES:
        o = run_vh(vh, "parse-expr", [{"src": src}])[0]
        got = o.get("sexpr") if o.get("ok") else None
        total += 1
        if got != exp:
            ctx.violation({"kind": "probe", "src": src}, {"src": src, "expected": exp, "observed": got},
                          f"{src!r} parsed as {got} expected {exp}")
    # canary
    cres = run_vh(vh, "parse-expr", [{"id": [0, 0], "src": "a + b * c"}])
    if cres[0].get("sexpr") == "(* (+ a b) c)" or cres[0].get("sexpr") != "(+ a (* b c))":
        raise ToolError("canary: harness S-expression for `a + b * c` unexpected")
    ctx.set("canary_rejected", True)
    ctx.set("traces_validated_against_impl", total)
    ctx.set("evaluations", total)
    ctx.set("distinct_nontrivial", nontrivial)
    ctx.set("mismatching_parses", mismatches)
    ctx.set("rule", "token sequences derived by Precedence.tla x 3 spacing styles; non-trivial = at least two operators (counted once per sequence)")
    ctx.set("exhaustive", True)
    ctx.set("explanation_bounds", "exhaustive: a op1 b op2 c for all 28x28 operator pairs; all sequences with <= 1 binary operator, <= 2 prefix operators, "
            "<= 1 member access and numeric literals; all sequences with <= 3 binary operators over one representative per level with <= 1 prefix and <= 1 parenthesis pair; "
            "sampled: <= 5 binary operators, 2 prefix, 2 parentheses, 2 member accesses")
    ctx.assumptions += ["spacing styles avoid `x -1` (documented as application of x to -1)",
                        "`a in b` is compared after undoing the desugaring to `b contains a`"]


def swap_contains(sx):
    """(contains X Y) -> (in Y X), structurally."""
    if "contains" not in sx:
        return sx
    # tiny s-expression reader
    toks = sx.replace("(", " ( ").replace(")", " ) ").split()
    def read(i):
        if toks[i] == "(":
            lst = []
            i += 1
            while toks[i] != ")":
                n, i = read(i)
                lst.append(n)
            return lst, i + 1
        return toks[i], i + 1
    def show(n):
        if isinstance(n, list):
            if n and n[0] == "contains" and len(n) == 3:
                n = ["in", n[2], n[1]]
            return "(" + " ".join(show(c) for c in n) + ")"
        return n
    tree, _ = read(0)
    return show(tree)


def replay(path):
    vh, _ = build_core()
    doc = json.load(open(path))
    res = run_vh(vh, "parse-expr", [{"src": doc["src"]}])
    print(json.dumps({"observed": res, "expected": doc["expected"]}, indent=1))
    return 0
