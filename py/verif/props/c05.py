"""C05 Definite static errors are always rejected.

TypedProg.tla derives well-typed programs and then takes one Inject step: a statement with a
definite static error -- an operator the operand types do not support (not even the most precise
types of the two values), a call with the wrong number of arguments, an argument whose value lies
outside the annotated parameter type, an undefined name, a missing attribute -- placed at one of
seven nesting depths (top level, function body, branch inside a function, lambda inside a list,
call argument inside a nested block, default value of a parameter, default value of a lambda
parameter inside a loop body).  TLC checks IllTyped: the declared operator table has no
typing for the injected statement.  The real compiler must reject every such program with at
least one error and produce no code; the program without the injected statement must be accepted
(otherwise the case is not judged).  A sample goes through `erg run`: nothing may be executed."""
from ..common import *
from ..typedprog import *

LEVEL = "model_checking"


def run(ctx):
    vh, erg = build_core()
    stage_erg_path()
    quick = ctx.tier == "quick"
    recs = []
    for j, cfg in enumerate(("MC_TypedProg_inj.cfg", "MC_TypedProg_injc.cfg")):
        r, rr = derive(cfg, (3 if quick else 10), 8, ctx.seed + j, f"c05{j}")
        ctx.tlc_stats(r, f"TypedProg.tla with Inject ({cfg})")
        recs += [x for x in rr if x["status"] == "static-error"]
    # stratify: injected kind x depth x operator x operand types
    import random
    rnd = random.Random(ctx.seed)
    rnd.shuffle(recs)
    cnt, kept = {}, []
    cap = 2 if quick else 25
    for rec in recs:
        st = rec["prog"][-1]
        k = (st["s"], st["c"], st["op"], rec["ty"][st["a"] - 1], rec["ty"][st["b"] - 1])
        if cnt.get(k, 0) < cap:
            cnt[k] = cnt.get(k, 0) + 1
            kept.append(rec)
    recs = kept
    srcs = [render(r_["prog"]) for r_ in recs]
    base = [render(r_["prog"][:-1]) for r_ in recs]
    ubase = sorted(set(base))
    d = scratch("c05")
    bres = compile_and_run(vh, ubase, d, opt=0, jobs=14, run=False)
    base_ok = {s: bool(o["compile"].get("ok")) for s, o in zip(ubase, bres)}
    res = compile_and_run(vh, srcs, d, opt=0, jobs=14, run=False)
    judged = skipped = 0
    kinds = {}
    accepted_cases = []
    for i, rec in enumerate(recs):
        if not base_ok[base[i]]:
            skipped += 1
            continue
        o = res[i]["compile"]
        st = rec["prog"][-1]
        judged += 1
        kinds[f"{st['s']}@{st['c']}"] = kinds.get(f"{st['s']}@{st['c']}", 0) + 1
        if "panic" in o or "hang" in o or "abort" in o:
            continue    # a crash is C07's business
        if o.get("ok") or not o.get("errors"):
            tys = [rec["ty"][st["a"] - 1], rec["ty"][st["b"] - 1]]
            accepted_cases.append(i)
            ctx.violation({"kind": "definite-error-accepted", "error": st["s"], "operator": st["op"], "operand_types": tys if st["s"] == "opmis" else tys[:1]},
                          {"src": srcs[i], "injected": inject_expr(len(rec["prog"]), st)[1], "depth": st["c"], "spec_types": rec["ty"]},
                          f"program with a definite static error ({st['s']}: {inject_expr(len(rec['prog']), st)[1]}, operand types {tys}, depth {st['c']}) was accepted")
    # through the CLI: nothing is executed
    cli = [i for i in range(len(recs)) if base_ok[base[i]]][: (6 if quick else 40)]
    env = erg_env()
    for i in cli:
        f = os.path.join(d, f"cli{i}.er")
        open(f, "w").write('print! "ran"\n' + srcs[i])
        p = subprocess.run([erg, "run", f], env=env, stdout=subprocess.PIPE, stderr=subprocess.PIPE, text=True, timeout=120, cwd=d)
        ctx.add("cli_runs")
        if "ran" in p.stdout or p.returncode == 0:
            st = recs[i]["prog"][-1]
            ctx.violation({"kind": "program-with-static-error-executed", "error": st["s"], "operator": st["op"]},
                          {"src": open(f).read(), "stdout": p.stdout[-300:], "exit": p.returncode},
                          f"`erg run` executed a program with a definite static error ({st['s']}), exit {p.returncode}")
    shutil.rmtree(d, ignore_errors=True)
    ctx.set("programs", len(recs))
    ctx.set("judged", judged)
    ctx.set("base_program_rejected_not_judged", skipped)
    ctx.set("injections_by_kind_and_depth", dict(sorted(kinds.items())))
    ctx.set("distinct_nontrivial", judged)
    ctx.set("rule", "distinct derived programs with exactly one injected definite error whose error-free prefix the real checker accepts")
    if judged < max(20, len(recs) // 2):
        raise ToolError(f"vacuous: {judged} of {len(recs)} judged")
    # canary: the error-free programs are accepted (counted above) and an error-free extension is not flagged
    ctx.set("canary_rejected", all(base_ok.values()) or skipped < len(recs) // 4)
    ctx.sample({"program": srcs[0], "injected": recs[0]["prog"][-1]})


def replay(path):
    d = json.load(open(path))
    vh, _ = build_core()
    stage_erg_path()
    w = scratch("c05_replay")
    o = compile_and_run(vh, [d["src"]], w, opt=0, jobs=1, run=False)[0]["compile"]
    shutil.rmtree(w, ignore_errors=True)
    print(d["src"])
    print(json.dumps(o, indent=1)[:2000])
    return 0 if not o.get("ok") else 1
