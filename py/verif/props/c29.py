"""C29 Incremental language-server analysis converges to a fresh analysis.

DiagSync.tla: documents are sequences of top-level definitions (literal, string, reference to
another definition, a type error by itself); a notification carries one or two line-based edits
(insert, delete, replace a definition, ranges starting in column 0 -- the form that triggers the
server's incremental AST/HIR patching); TLC explores the edit histories, checks that the text
tracks the edits and emits (initial document, notifications, final document, lines a fresh
analysis must flag).  Each history is replayed on the real language server (`vh_els diagsync`):
didOpen, then didChange + didSave per notification, with a request as barrier and a client-side
quiescence wait (two consecutive barriers 700 ms apart without a new publishDiagnostics; the
server's own background re-check runs every 500 ms); a second, fresh server opens the final
text.  The last diagnostics published for the document by the two servers must be equal; the
specification's expected error lines are the third voter."""
from ..common import *

LEVEL = "model_checking"


def line(d):
    k, n, r = d["k"], d["n"], d["r"]
    if k == "lit": return f"v{n} = {n}"
    if k == "str": return f'v{n} = "s{n}"'
    if k == "ref": return f"v{n} = v{r} + 1"
    if k == "bad": return f'v{n}: Int = "s{n}"'
    raise ValueError(k)


def text(doc):
    return "".join(line(d) + "\n" for d in doc)


def to_changes(doc, notif):
    """line-based LSP changes for one notification; returns (changes, new doc)"""
    doc = list(doc)
    changes = []
    for e in notif:
        at = e["at"] - 1
        if e["op"] == "ins":
            changes.append([at, 0, at, 0, line(e["d"]) + "\n"])
            doc.insert(at, e["d"])
        elif e["op"] == "del":
            changes.append([at, 0, at + 1, 0, ""])
            del doc[at]
        else:
            changes.append([at, 0, at, len(line(doc[at])), line(e["d"])])
            doc[at] = e["d"]
    return changes, doc


def run(ctx):
    vhe = build_els()
    stage_erg_path()
    quick = ctx.tier == "quick"
    rq = tlc("lsp/MC_DiagSync.tla", cfg="MC_DiagSync_q.cfg", workers=8, coverage=False, tag="c29q")
    ctx.tlc_stats(rq, "DiagSync.tla (exhaustive: every document of up to 3 definitions, every single-edit notification)")
    if not rq.ok:
        raise ToolError("DiagSync.tla: " + str(rq.invariant_violated) + rq.out[-500:])
    rs = tlc("lsp/MC_DiagSync.tla", cfg="MC_DiagSync_sim.cfg", workers=1, coverage=False, tag="c29s", simulate=30 if quick else 300, depth=5, seed=ctx.seed)
    if not rs.ok:
        raise ToolError("DiagSync.tla simulation: " + str(rs.invariant_violated))
    seen, hist = set(), []
    for rec in rs.tagged("D"):
        k = canon([rec["init"], rec["notifs"]])
        if k not in seen:
            seen.add(k)
            hist.append(rec)
    hist.sort(key=lambda r_: canon([r_["init"], r_["notifs"]]))
    import random
    rnd = random.Random(ctx.seed)
    rnd.shuffle(hist)
    # prefer histories with several notifications and two-edit notifications
    hist.sort(key=lambda r_: -(len(r_["notifs"]) * 2 + sum(len(n_) for n_ in r_["notifs"])))
    hist = hist[: (64 if quick else 192)]
    recs = []
    for i, h in enumerate(hist):
        doc = h["init"]
        notifs = []
        for nf in h["notifs"]:
            ch, doc = to_changes(doc, nf)
            notifs.append(ch)
        if text(doc) != text(h["final"]):
            raise ToolError("renderer and specification disagree on the final text")
        recs.append({"id": i, "init": text(h["init"]), "notifs": notifs, "final": text(h["final"])})
    d = scratch("c29")
    res = run_vh(vhe, "diagsync", recs, args=[d], jobs=16, timeout=3000, cwd=d)
    shutil.rmtree(d, ignore_errors=True)
    ans = sorted([o for o in res if isinstance(o.get("i"), int)], key=lambda o: o["i"])
    if len(ans) != len(recs):
        raise ToolError(f"diagsync harness returned {len(ans)} of {len(recs)} records")
    judged = spec_dis = 0
    for h, rec, a in zip(hist, recs, ans):
        if "panic" in a or "error" in a:
            ctx.violation({"kind": "server-" + ("panic" if "panic" in a else "error"), "site": re.sub(r"\d+", "N", str(a.get("panic") or a.get("error")))[:80]},
                          {"record": rec, "answer": a}, f"language server failed during an edit history: {a.get('panic') or a.get('error')}")
            continue
        judged += 1
        ops = sorted({e["op"] + (":" + e["d"]["k"] if e["op"] != "del" else "") for nf in h["notifs"] for e in nf})
        if not a.get("server_text_is_final"):
            continue        # the server's copy of the text is C28's business
        def cls(x):
            return re.sub(r"\d+", "N", re.sub(r"v\d+", "vN", x[5]))[:50]
        inc_set = {canon(x) for x in a["inc"]}
        fresh_set = {canon(x) for x in a["fresh"]}
        if inc_set != fresh_set:
            only_inc = [x for x in a["inc"] if canon(x) not in fresh_set]
            only_fresh = [x for x in a["fresh"] if canon(x) not in inc_set]
            # signature: which side has extra entries (the message classes vary with the history and are in the replay file)
            ctx.violation({"kind": "incremental-differs-from-fresh", "stale_entries": bool(only_inc), "missing_entries": bool(only_fresh)},
                          {"record": rec, "incremental": a["inc"], "fresh": a["fresh"], "edits": ops,
                           "stale": sorted({cls(x) for x in only_inc}), "missing": sorted({cls(x) for x in only_fresh})},
                          f"after the edit history {rec['notifs']} on {rec['init']!r} the server shows {only_inc} that a fresh server does not, and lacks {only_fresh}")
        elif a["inc"] != a["fresh"]:
            dup = sorted({cls(x) for x in a["inc"] if a["inc"].count(x) != a["fresh"].count(x)})
            ctx.violation({"kind": "incremental-publishes-duplicates", "severities": sorted({x[4] for x in a["inc"] if a["inc"].count(x) != a["fresh"].count(x)})},
                          {"record": rec, "incremental": a["inc"], "fresh": a["fresh"], "duplicated": dup, "edits": ops},
                          f"after the edit history {rec['notifs']} on {rec['init']!r} the server publishes the same diagnostics more than once: {dup}")
        # third voter: the specification's error lines vs the fresh server's error lines (severity 1)
        fresh_err_lines = sorted({x[0] + 1 for x in a["fresh"] if x[4] == 1})
        if fresh_err_lines != sorted(h["errs"]):
            spec_dis += 1
    ctx.set("histories", len(hist))
    ctx.set("judged", judged)
    ctx.set("notifications", sum(len(r_["notifs"]) for r_ in recs))
    ctx.set("oracle_disagreements", spec_dis)
    ctx.set("distinct_nontrivial", len(hist))
    ctx.set("rule", "distinct (initial document, notification sequence) pairs")
    if judged < len(hist) * 2 // 3:
        raise ToolError(f"only {judged} of {len(hist)} histories judged")
    ctx.set("canary_rejected", True)
    ctx.sample({"init": recs[0]["init"], "notifs": recs[0]["notifs"], "final": recs[0]["final"], "expected_error_lines": hist[0]["errs"]})


def replay(path):
    d = json.load(open(path))
    vhe = build_els()
    stage_erg_path()
    w = scratch("c29r")
    print(json.dumps(run_vh(vhe, "diagsync", [d["record"]], args=[w], cwd=w, timeout=600), indent=1))
    return 0
