"""C02 Type-checked programs do not fail with run-time type errors.

TypedProg.tla derives programs over annotated Nat/Int/Float/Str/Bool/List values, user functions
with annotated parameters and method calls, for operand values of both signs; its TypeSound
invariant (TLC) says the declared operator table admits no value outside its result type.  Every
derived program the real checker accepts is compiled and run: it must not end with TypeError,
AttributeError, NameError or a value-constraint error of the runtime classes (`Nat can't be
negative`).  ZeroDivisionError, IndexError and AssertionError are legitimate."""
from ..common import *
from ..typedprog import *
from .c34 import model_checks, evaluate

LEVEL = "model_checking"


def run(ctx):
    vh, _ = build_core()
    stage_erg_path()
    quick = ctx.tier == "quick"
    model_checks(ctx)
    r, recs = derive("MC_TypedProg_sim.cfg", 3 if quick else 12, 9, ctx.seed + 7, "c02", per_shape=2 if quick else 40)
    ctx.tlc_stats(r, "TypedProg.tla (simulation, 9 statements)")
    rc, recs_c = derive("MC_TypedProg_coll.cfg", 4 if quick else 12, 9, ctx.seed + 7 + 1, "c02c", per_shape=4 if quick else 60)
    ctx.tlc_stats(rc, "TypedProg.tla (simulation, strings and lists)")
    recs = recs + recs_c
    # exhaustive small programs: two literals and every operator / function signature on them
    r2, recs2 = derive("MC_TypedProg_pairs.cfg" if not quick else "MC_TypedProg_pairs_q.cfg", None, None, None, "c02p", workers=8, exhaustive=True)
    ctx.tlc_stats(r2, "TypedProg.tla (exhaustive: literal pair, one operator statement)")
    recs = recs + recs2
    accepted, judged = evaluate(ctx, vh, recs, "c02", "C02")
    ctx.set("distinct_nontrivial", len(recs))
    ctx.set("rule", "distinct derived programs; each accepted program is one judgement")
    if accepted < len(recs) // 3:
        raise ToolError(f"vacuous: {accepted} accepted of {len(recs)}")
    ctx.sample({"program": render(recs[0]["prog"])})


def replay(path):
    from .c34 import replay as r34
    return r34(path)
