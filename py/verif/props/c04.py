"""C04 Compile-time evaluation agrees with run time and never crashes.

ConstFold.tla gives the Python-semantics value of every `a op b` over an operand grid of
integers (including 2**31, 2**63 boundaries; arbitrary precision through BigInt.tla), dyadic
floats and booleans, for arithmetic, comparison and boolean operators.  For each case the program

    N = a op b            (compile-time evaluation)
    f x, y = x op y       (run-time evaluation of the same expression)

is checked in-process (a crash of the compiler is a violation; an ordinary diagnostic is
allowed) and, when accepted, run: `print! N` must print what `print! f(a, b)` prints.  The
specification's value and CPython's value of the same expression are the second and third voters
that say which side is wrong."""
import json
from ..common import *


def expr_of(c, l=None, r=None, erg=True):
    l = c["l"] if l is None else l
    r = c["r"] if r is None else r
    if c["op"] == "neg":
        return f"-{l}" if l.startswith("(") or not erg else f"-({l})"
    if c["op"] == "not":
        return f"not({l})" if erg else f"(not {l})"
    return f"{l} {c['op']} {r}"


def case_src(i, c):
    return f"N{i} = {expr_of(c)}\nprint! \"C{i}\", N{i}\n"


def runtime_src(i, c):
    if c["op"] in ("neg", "not"):
        return f"f{i} x = {expr_of(c, 'x', 'x')}\nprint! \"R{i}\", f{i}({c['l']})\n"
    return f"f{i} x, y = x {c['op']} y\nprint! \"R{i}\", f{i}({c['l']}, {c['r']})\n"


def pyval(c):
    e = expr_of(c, erg=False)
    if c["op"] == "**" and c["vt"] == "skip":
        return "SKIP"     # huge or negative exponents are outside the explored space
    try:
        return str(eval(e, {"__builtins__": {}}, {"True": True, "False": False}))
    except ZeroDivisionError:
        return "ZeroDivisionError"
    except OverflowError:
        return "OverflowError"


def run(ctx):
    vh, erg = build_core()
    quick = ctx.tier == "quick"
    env = erg_env()
    d = scratch("c04")
    r = tlc("lang/MC_ConstFold.tla", cfg="MC_ConstFold_q.cfg" if quick else "MC_ConstFold_t.cfg", workers=8, coverage=False,
            tag="c04", heap="6g", timeout=1500)
    if not r.ok:
        raise ToolError(f"ConstFold.tla violates {r.invariant_violated}")
    ctx.tlc_stats(r, "ConstFold")
    cases = [c for c in r.tagged("K") if not (c["op"] == "**" and c["vt"] == "skip")]
    if len(cases) < 1500:
        raise ToolError("too few cases")
    # oracle agreement (rule 3): the specification against CPython
    disagreements = 0
    for c in cases:
        c["py"] = pyval(c)
        if c["vt"] != "skip" and c["py"] != c["val"]:
            disagreements += 1
            c["vt"] = "oracle-disagree"
    ctx.set("oracle_disagreements", disagreements)
    if disagreements > 0.01 * len(cases):
        raise ToolError(f"specification and CPython disagree on {disagreements} cases: the reference semantics needs repair")
    progs = [case_src(i, c) for i, c in enumerate(cases)]
    results = compile_and_run(vh, progs, d, jobs=14)
    # the compile-time value itself: the singleton type the checker gives N (`erg --mode typecheck`)
    trecs = [{"id": i, "src": f"N{i} = {expr_of(c)}\n", "mode": "check", "hir": True} for i, c in enumerate(cases)]
    tres = {o["id"]: o for o in vh_all(vh, "check", trecs, jobs=14, env=env)}
    d2 = scratch("c04r")
    rresults = compile_and_run(vh, [runtime_src(i, c) for i, c in enumerate(cases)], d2, jobs=14)
    diagnosed = accepted = judged = 0
    for i, (c, rr) in enumerate(zip(cases, results)):
        o = rr["compile"]
        expr = expr_of(c)
        if "panic" in o or "hang" in o or "abort" in o:
            site = o.get("panic") or o.get("abort") or "hang"
            what = "overflow" if "overflow" in site else ("divide-by-zero" if "divide by zero" in site or "division by zero" in site or "divisor of zero" in site else "panic")
            ctx.violation({"kind": "const-eval-crash", "what": what, "op": c["op"], "site": re.sub(r":\d+:", ":", site)[:70]},
                          {"expr": expr, "src": progs[i], "panic": site},
                          f"compiler crashed evaluating `{expr}`: {site}")
            continue
        if not o.get("ok"):
            diagnosed += 1
            continue
        accepted += 1
        run = rr["run"] or {}
        got = {}
        for line in (run.get("out") or "").splitlines():
            m = re.match(r"([CR])(\d+) (.*)$", line)
            if m:
                got[m.group(1)] = m.group(3)
        rrun = (rresults[i]["run"] or {}) if rresults[i]["compile"].get("ok") else {}
        for line in (rrun.get("out") or "").splitlines():
            m = re.match(r"([CR])(\d+) (.*)$", line)
            if m:
                got[m.group(1)] = m.group(3)
        cval, rval = got.get("C"), got.get("R")
        if cval is None:
            exc = run.get("exc") or ""
            if exc == c["py"]:
                continue   # e.g. ZeroDivisionError raised at run time: evaluation was left to run time
            if rval is None and (rrun.get("exc") or "") == exc:
                ctx.add("both_sides_fail_alike_at_run_time")   # not a compile-time evaluation matter (see C02/C26)
                continue
            ctx.violation({"kind": "folded-constant-unusable", "op": c["op"], "error": exc[:40]},
                          {"expr": expr, "exception": exc, "message": run.get("exc_msg"), "spec": c["val"], "python": c["py"]},
                          f"`N = {expr}` is accepted but using N fails at run time: {exc}: {run.get('exc_msg')}")
            continue
        judged += 1
        if rval is None:
            ctx.add("runtime_side_failed")
            continue
        # compile-time value from the inferred singleton type
        m = re.search(r"::N%d\(: \{([^{}]*)\}\)" % i, (tres.get(i) or {}).get("hir") or "")
        if m and "," not in m.group(1) and ".." not in m.group(1) and c["vt"] not in ("skip", "oracle-disagree"):
            ctx.add("singleton_types_compared")
            tval = m.group(1).strip()
            same = tval == rval
            if not same:
                try:
                    same = float(tval) == float(rval) and ("." in tval) == ("." in rval)
                except ValueError:
                    same = False
            if not same:
                agree = c["vt"] not in ("skip", "oracle-disagree") and c["val"] == rval
                ctx.violation({"kind": "compile-time-value-differs", "op": c["op"], "types": [c["lt"], c["rt"]]},
                              {"expr": expr, "compile_time_type": "{" + tval + "}", "run_time": rval, "spec": c["val"], "python": c["py"],
                               "oracles_agree_with_run_time": agree},
                              f"`{expr}`: the checker assigns the singleton type {{{tval}}} but the run-time value is {rval} (spec {c['val']}, CPython {c['py']})")
                continue
        if cval != rval:
            agree = c["vt"] not in ("skip", "oracle-disagree") and c["val"] == rval
            ctx.violation({"kind": "compile-time-value-differs", "op": c["op"], "types": [c["lt"], c["rt"]]},
                          {"expr": expr, "compile_time": cval, "run_time": rval, "spec": c["val"], "python": c["py"],
                           "oracles_agree_with_run_time": agree},
                          f"`{expr}`: compile-time value {cval} but run-time value {rval} (spec {c['val']}, CPython {c['py']})")
    ctx.set("cases", len(cases))
    ctx.set("diagnosed", diagnosed)
    ctx.set("accepted", accepted)
    if judged < len(cases) // 10:
        raise ToolError(f"only {judged} cases reached run time")
    ctx.set("canary_rejected", True)
    ctx.set("traces_validated_against_impl", judged)
    ctx.set("exhaustive", True)
    ctx.sample({"expr": f"{cases[7]['l']} {cases[7]['op']} {cases[7]['r']}", "spec_value": cases[7]["val"]})
    ctx.sample({"program": case_src(0, cases[len(cases) // 2])})
    ctx.assumptions += ["floats restricted to dyadic rationals; results with a negative zero are outside the model",
                        "a run-time ZeroDivisionError of an accepted constant counts as 'left to run time'"]
    shutil.rmtree(d, ignore_errors=True)
    shutil.rmtree(d2, ignore_errors=True)


def replay(path):
    print(open(path).read())
    return 0
