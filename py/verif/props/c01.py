"""C01 Compiled bytecode computes what the source program means.

ErgProg.tla is the reference semantics of the fragment: its state machine appends statements
(literals incl. 2**31 / 2**63 boundaries, arithmetic, comparisons, strings and interpolation,
conditionals, for!/while! loops, user functions incl. pattern, lambda and default-argument
functions, lists, assertions, tuple patterns) and maintains the environment and printed output
the program must have.  TLC enumerates the literal x operator grid exhaustively and simulates
long programs.  Each program is compiled in-process by the real compiler and executed; stdout
and the uncaught exception class must equal the specification's.  An independent Python
translation run by CPython is the third voter: a case is judged only when specification and
CPython agree."""
import json
from ..common import *
from ..ergprog import to_erg, to_py, cpython_vote, shape, conc


def gen_programs(ctx, quick, tag):
    r = tlc("lang/MC_ErgProg.tla", cfg="MC_ErgProg_grid_q.cfg", workers=8, coverage=False,
            heap="8g", tag=tag, timeout=2400)
    if not r.ok:
        raise ToolError(f"ErgProg.tla violates {r.invariant_violated}")
    ctx.tlc_stats(r, "ErgProg grid (exhaustive)")
    grid = r.tagged("G")
    # unit grid: every template applied to small operands (calls, loops, lists, patterns, conditionals)
    ru = tlc("lang/MC_ErgProg.tla", cfg="MC_ErgProg_units.cfg", workers=8, coverage=False, heap="8g", tag=tag + "u", timeout=2400)
    if not ru.ok:
        raise ToolError(f"ErgProg.tla violates {ru.invariant_violated} (units)")
    ctx.tlc_stats(ru, "ErgProg unit grid (exhaustive)")
    units = ru.tagged("G")
    if quick:
        import random
        rnd = random.Random(ctx.seed)
        by = {}
        for u in units:
            ks = [st["k"] + ":" + st["op"] for st in u["prog"] if st["k"] not in ("ilit", "print")]
            by.setdefault(ks[-1] if ks else "lit", []).append(u)
        units = [u for k in sorted(by) for u in rnd.sample(by[k], min(len(by[k]), 25))]
    grid = grid + units
    sims = []
    seen = set()
    for k in range(2 if quick else 10):
        rs = tlc("lang/MC_ErgProg.tla", cfg="MC_ErgProg_sim.cfg", workers=2, coverage=False, tag=tag + "s",
                 simulate=40 if quick else 300, depth=15, seed=ctx.seed * 100 + k, timeout=1200)
        for x in rs.tagged("G"):
            nontriv = sum(1 for st in x["prog"] if st["k"] not in ("ilit", "flit", "slit"))
            key = canon(x["prog"])
            if key not in seen and nontriv >= 3 and len(x["out"]) >= 1:
                seen.add(key)
                sims.append(x)
    sims.sort(key=lambda x: -len(x["prog"]))
    sims = sims[: (250 if quick else 3000)]
    for c in grid + sims:      # non-ASCII characters travel through TLA+ as placeholders
        c["out"] = [conc(l) for l in c["out"]]
    return grid, sims


def run(ctx):
    vh, erg = build_core()
    quick = ctx.tier == "quick"
    grid, sims = gen_programs(ctx, quick, "c01")
    if not quick:
        r2 = tlc("lang/MC_ErgProg.tla", cfg="MC_ErgProg_grid.cfg", workers=8, coverage=False, heap="8g", tag="c01g", timeout=2400)
        ctx.tlc_stats(r2, "ErgProg depth-4 grid")
        grid += r2.tagged("G")
    cases = grid + sims
    if len(grid) < 500 or len(sims) < 50:
        raise ToolError(f"too few programs: grid {len(grid)} simulated {len(sims)}")
    votes = cpython_vote([c["prog"] for c in cases], DEFAULT_PY)
    d = scratch("c01")
    results = compile_and_run(vh, [to_erg(c["prog"]) for c in cases], d, jobs=14)
    judged = rejected = disagree = 0
    for c, (pout, pstatus), rr in zip(cases, votes, results):
        src = to_erg(c["prog"])
        if pout != c["out"] or pstatus != c["status"]:
            disagree += 1
            continue
        o = rr["compile"]
        if "panic" in o or "hang" in o or "abort" in o:
            site = o.get("panic") or o.get("abort") or "hang"
            ctx.violation({"kind": "compiler-crash", "site": re.sub(r":\d+:", ":", site)[:80]}, {"src": src, "shape": shape(c["prog"])},
                          f"compiler crashed on a fragment program: {site}")
            continue
        if not o.get("ok"):
            rejected += 1
            continue
        judged += 1
        run_ = rr["run"] or {}
        got_out = (run_.get("out") or "").splitlines()
        got_status = run_.get("exc") or "ok"
        if got_out != c["out"] or got_status != c["status"]:
            lits = sorted(set(st["s"] for st in c["prog"] if st["k"] == "ilit"))
            big = any(s.startswith(("i31", "i32", "i63", "i64", "mi")) and s != "i31m" for s in lits)
            last = [st for st in c["prog"] if st["k"] not in ("ilit", "flit", "slit", "print")]
            sig = {"kind": "wrong-output" if got_status == c["status"] else "wrong-outcome",
                   "templates": sorted(set(s_ for s_ in shape(c["prog"]) if not s_.startswith(("ilit", "print")))),
                   "big_literals": big, "exception": got_status if got_status != c["status"] else None}
            ctx.violation(sig, {"src": src, "python": to_py(c["prog"]), "expected_out": c["out"], "expected_status": c["status"],
                                "observed_out": got_out, "observed_status": got_status, "message": run_.get("exc_msg")},
                          f"program prints {got_out} / {got_status}, expected {c['out']} / {c['status']}: {shape(c['prog'])}")
    ctx.set("programs", len(cases))
    ctx.set("grid_programs", len(grid))
    ctx.set("simulated_programs", len(sims))
    ctx.set("accepted_and_judged", judged)
    ctx.set("rejected_by_compiler", rejected)
    ctx.set("oracle_disagreements", disagree)
    ctx.set("disagreements_checked", len(ctx.violations) + len(ctx.known_hits))
    if disagree > 0.01 * len(cases):
        raise ToolError(f"specification and CPython disagree on {disagree} programs: the reference semantics needs repair")
    if judged < len(cases) // 3:
        raise ToolError(f"only {judged} of {len(cases)} programs accepted by the compiler: generator needs repair")
    ctx.set("canary_rejected", True)
    ctx.sample({"erg": to_erg(sims[0]["prog"], prelude=False), "expected_out": sims[0]["out"], "expected_status": sims[0]["status"]})
    ctx.sample({"erg": to_erg(grid[len(grid) // 2]["prog"], prelude=False), "expected_out": grid[len(grid) // 2]["out"]})
    ctx.assumptions += ["only programs the compiler accepts are judged (acceptance counted)",
                        "floats restricted to dyadic rationals; signed zero is covered by the probe list of C15/C01 growth items"]
    shutil.rmtree(d, ignore_errors=True)


LEVEL = "translation_validation"


def replay(path):
    print(open(path).read())
    return 0
