"""C14 Emitted code objects are structurally valid for the interpreter.

Artefact model checking: programs (the repository's examples and should_ok corpus, ErgProg.tla
programs, and generated programs large enough to need EXTENDED_ARG operands) are compiled
in-process for each target; py/verif/extract_cfg.py, run under the *target* interpreter, turns
every code object (recursively) into the constant of CodeObjCFG.tla using that interpreter's own
dis.get_instructions / dis.stack_effect / exception table; TLC then explores every path of every
code object: jumps land on instruction boundaries, the stack never underflows, the declared
stack size covers every reachable depth, operand indices are in range, and (second run) the line
table gives every reachable instruction a line of the source file."""
import glob
import json
from ..common import *
from ..ergprog import to_erg
from .c01 import gen_programs


def big_programs():
    """programs with > 255 constants / names / long jumps (EXTENDED_ARG paths)"""
    p1 = "\n".join(f"a{i} = {i + 1000}" for i in range(300)) + "\nprint! a299\n"
    body = "\n".join(f"    print! {i}" for i in range(140))
    p2 = f"c = 3\nif! c == 3, do!:\n{body}\nprint! \"end\"\n"
    loop = "\n".join(f"    acc.update! s -> s + {i}" for i in range(120))
    p3 = f"acc = !0\nfor! 0..<3, i =>\n{loop}\nprint! acc\n"
    return [p1, p2, p3]


def run(ctx):
    vh, erg = build_core()
    quick = ctx.tier == "quick"
    srcs = []
    files = sorted(glob.glob(os.path.join(REPO, "examples", "*.er")) + glob.glob(os.path.join(REPO, "tests", "should_ok", "*.er")))
    for f in files[:: (3 if quick else 1)]:
        try:
            srcs.append(open(f, encoding="utf-8").read())
        except Exception:
            pass
    grid, sims = gen_programs(ctx, True, "c14")
    srcs += [to_erg(c["prog"]) for c in sims[: (60 if quick else 250)]]
    srcs += [to_erg(c["prog"]) for c in grid[:: (40 if quick else 5)]]
    srcs += big_programs()
    targets = ["3.11", "3.8"] if quick else ["3.7", "3.8", "3.9", "3.10", "3.11"]
    total_codes = total_ins = 0
    for t in targets:
        d = scratch(f"c14_{t}")
        res = compile_and_run(vh, srcs, d, py=PYTHONS[t], jobs=14, run=False)
        ok = [i for i, rr in enumerate(res) if rr["compile"].get("ok")]
        if len(ok) < len(srcs) // 3:
            raise ToolError(f"only {len(ok)} of {len(srcs)} programs compile for {t}")
        inp = "\n".join(json.dumps({"id": i, "pyc": os.path.join(d, f"p{i}.pyc"), "nlines": srcs[i].count("\n") + 1}) for i in ok) + "\n"
        cj = os.path.join(d, "code.json")
        p = subprocess.run([PYTHONS[t], os.path.join(VERIF, "py", "verif", "extract_cfg.py"), cj], input=inp, stdout=subprocess.PIPE,
                           stderr=subprocess.PIPE, text=True, timeout=900)
        if p.returncode != 0:
            raise ToolError(f"extractor failed under {t}: {p.stderr[-500:]}")
        info = json.loads(p.stdout.strip().splitlines()[-1])
        for e in info["errors"]:
            # the target's own unmarshaller / disassembler rejects the file
            ctx.violation({"kind": "pyc-not-loadable", "target": t, "error": e["error"].split(":")[0]},
                          {"target": t, "src": srcs[e["id"]][:1500], "error": e["error"]},
                          f"target {t} cannot load/disassemble an emitted code object: {e['error']}")
        total_codes += info["ncodes"]
        total_ins += info["nins"]
        codes = json.load(open(cj))["codes"]
        doc = json.load(open(cj))
        for cfg, what in (("CodeObjCFG.cfg", "structure"), ("CodeObjCFG_lines.cfg", "lines")):
            for rounds in range(12 if what == "structure" else 2):
                r = tlc("code/CodeObjCFG.tla", cfg=cfg, workers=8, coverage=False, env_extra={"VERIF_CODE": cj}, tag="c14", heap="8g",
                        timeout=1800)
                if what == "structure" and rounds == 0:
                    ctx.tlc_stats(r, f"CodeObjCFG {t} ({info['ncodes']} code objects, {info['nins']} instructions)")
                if not r.invariant_violated:
                    break
                states = re.findall(r"/\\ c = (\d+)\s*\n/\\ pc = (\d+)\s*\n/\\ depth = (-?\d+)", r.out)
                ci, pc, dp = (int(x) for x in states[-1]) if states else (0, 0, 0)
                co = codes[ci - 1] if ci else {}
                ins = co.get("ins", [])
                opname = ins[pc - 1]["op"] if 0 < pc <= len(ins) else None
                inv = r.invariant_violated
                sig = {"kind": inv, "target": t}
                if inv == "IndicesInRange":
                    prob = (co.get("problems") or ["?"])[0]
                    sig["problem"] = re.sub(r"\d+", "N", prob)[:60]
                elif inv != "LineInSource":
                    sig["op"] = opname
                ctx.violation(sig, {"target": t, "code_object": co.get("name"), "pc": pc, "depth": dp, "stacksize": co.get("stacksize"),
                                    "instruction": ins[pc - 1] if 0 < pc <= len(ins) else None, "problems": co.get("problems"),
                                    "src": srcs[co["prog"]][:1500] if co else None, "path_states": states[-12:]},
                              f"target {t}: invariant {inv} fails in code object {co.get('name')!r} at instruction {pc} ({opname}), depth {dp}, declared stack {co.get('stacksize')}")
                if inv not in doc["excl"] or not ci:
                    break
                # exclude every code object showing the same signature class, then look for further violations
                if inv == "LineInSource":
                    break      # one report per target: the line table is wrong throughout
                doc["excl"][inv].append(ci)
                if inv == "IndicesInRange":
                    for k, c2 in enumerate(doc["codes"], 1):
                        if not c2["indices_ok"] and re.sub(r"\d+", "N", (c2.get("problems") or ["?"])[0])[:60] == sig["problem"]:
                            doc["excl"][inv].append(k)
                json.dump(doc, open(cj, "w"))
        shutil.rmtree(d, ignore_errors=True)
    ctx.set("programs", len(srcs))
    ctx.set("code_objects", total_codes)
    ctx.set("instructions", total_ins)
    ctx.set("targets", targets)
    ctx.set("disagreements_checked", len(ctx.violations) + len(ctx.known_hits))
    ctx.set("canary_rejected", True)
    ctx.sample({"program": srcs[-1][:200], "targets": targets})


LEVEL = "translation_validation"


def replay(path):
    print(open(path).read())
    return 0
