"""C34 Inferred types describe the values bindings hold at run time.

TypedProg.tla derives annotated programs together with, for every binding, the static type the
declared operator table gives it and the value Python semantics gives it; TLC checks TypeSound
(value in type) on the table itself: it holds once the entry Int ** Int : Nat is corrected to
Int, and TLC rejects the table as the compiler has it with the counterexample (-2) ** 7 (a known
finding, reproduced on the real code below).  Every derived program is then given to the real checker; the type it
reports for each top-level binding (the typed tree of `erg --mode typecheck`) is parsed into a
membership predicate (classes, singleton/enum sets, intervals, length-indexed lists, unions) and
evaluated on the value the binding really holds after the compiled module ran.  An accepted
literal index into a list whose reported type carries a length must not raise IndexError."""
from ..common import *
from ..typedprog import *

LEVEL = "model_checking"


def model_checks(ctx):
    ro = tlc("lang/MC_TypedProg.tla", cfg="MC_TypedProg_sound_q.cfg" if ctx.tier == "quick" else "MC_TypedProg_sound.cfg", workers=8, coverage=False, tag="c34s")
    ctx.tlc_stats(ro, "TypedProg.tla TypeSound (declared operator table, exhaustive, 3 statements)")
    if not ro.ok:
        ctx.model_drift("TypeSound fails on the declared operator table: " + ro.out[-800:])
    rb = tlc("lang/MC_TypedProg.tla", cfg="MC_TypedProg_old.cfg", workers=4, coverage=False, tag="c34b")
    ctx.set("canary_rejected", rb.invariant_violated == "TypeSound")
    if rb.invariant_violated != "TypeSound":
        raise ToolError("canary: the table with Int ** Int : Nat was not rejected by TLC")


def stmt_sig(rec, st):
    """the failing statement as template, operator and the class of its left operand (the annotated
    parameter type for a function, the most precise class of the operand's value otherwise)"""
    if st["k"] == "fn":
        lhs = st["s"].split(",")[0]
    elif 1 <= st["a"] <= len(rec["vals"]):
        v = rec["vals"][st["a"] - 1]
        lhs = ("Int" if v.startswith("-") else "Nat") if re.fullmatch(r"-?\d+", v) else "Float" if re.fullmatch(r"-?\d+\.\d+(e[-+]?\d+)?", v) \
            else "List" if v.startswith("[") else "Str"
    else:
        lhs = None
    return {"template": st["k"], "operator": st["op"], "lhs": lhs}


def root_cause(prog, n):
    """Known unsound typing rules taint what is computed from their results: the result of a function whose body is a
    guarded `if` (the guard narrows an Int to a Nat refinement), of `**` (typed Nat for an Int base) and of an element
    of a Nat! list.  Returns the kind of the earliest such source statement n depends on (or is), else None."""
    def operands(st):
        k = st["k"]
        if k in ("bin", "cmp", "scat", "smul", "fn", "lmk", "lcat", "opmeth", "lpushi", "lmap"): return [st["a"], st["b"]]
        if k == "lpush": return [st["a"], st["b"], st["c"]]
        if k in ("neg", "meth", "ann", "slen", "lget", "ifg"): return [st["a"]]
        return []
    src = {}
    for i, st in enumerate(prog, 1):
        own = "ifg" if st["k"] == "ifg" else "pow" if st["k"] in ("bin", "fn", "opmeth") and st["op"] == "**" else "lpush" if st["k"] == "lpush" else None
        inherited = [src[j] for j in operands(st) if j in src]
        if inherited:
            src[i] = min(inherited)          # (index, kind) of the earliest source
        elif own:
            src[i] = (i, own)
    return src[n][1] if n in src else None


def evaluate(ctx, vh, recs, name, want):
    """want: 'C34' or 'C02' -- which verdicts to report"""
    srcs, hir, res = compile_run(vh, recs, name, typed_tree=(want == "C34"))
    accepted = judged = unparsed = ran_ok = 0
    unparsed_kinds = {}
    excs = {}
    for i, rec in enumerate(recs):
        o = res[i]["compile"]
        if not o.get("ok"):
            continue
        accepted += 1
        run_ = res[i]["run"] or {}
        exc = run_.get("exc")
        excs[exc or "ok"] = excs.get(exc or "ok", 0) + 1
        vals = runtime_bindings(run_)
        prog = rec["prog"]
        # the statement that raised: the first one whose binding is missing
        failed = next((n for n in range(1, len(prog) + 1) if f"v{n}" not in vals), None)
        if want == "C02":
            judged += 1
            msg = run_.get("exc_msg") or ""
            typeish = exc in TYPE_ERRORS or (exc == "ValueError" and "Nat can't be negative" in msg) or exc in ("InterpreterDied", "Timeout", "SystemError")
            if typeish:
                st = prog[failed - 1] if failed else prog[-1]
                root = root_cause(prog, failed) if (failed and exc == "ValueError") else None
                ctx.violation({"kind": "accepted-program-type-error", "exception": exc, **({"root": root} if root else stmt_sig(rec, st))},
                              {"src": srcs[i], "exception": exc, "message": msg, "statement": failed},
                              f"accepted program fails with {exc}: {msg[:100]} at statement {failed} ({shape(st)})")
            continue
        types = reported_types((hir.get(i) or {}).get("hir"))
        if exc == "ValueError" and "Nat can't be negative" in (run_.get("exc_msg") or "") and failed:
            # the runtime's Nat(..) wrapper, inserted where the inferred type is Nat, met a negative value
            st = prog[failed - 1]
            root = root_cause(prog, failed)
            ctx.violation({"kind": "value-outside-inferred-type", **({"root": root} if root else stmt_sig(rec, st)), "type": "Nat"},
                          {"src": srcs[i], "binding": f"v{failed}", "reported_type": types.get(f"v{failed}"), "message": run_.get("exc_msg")},
                          f"binding v{failed} ({shape(st)}) has inferred type {types.get(f'v{failed}')} but its value is negative: {run_.get('exc_msg')}")
        if exc == "IndexError" and failed and prog[failed - 1]["k"] == "lget":
            lt = types.get(f"v{prog[failed - 1]['a']}", "")
            try:
                t = parse_type(lt)
                known = (t[0] == "list" and t[2] is not None) or (t[0] == "enum")
            except Unparsed:
                known = False
            if known:
                ctx.violation({"kind": "accepted-index-out-of-range", "list_type": re.sub(r"-?\d+", "N", lt)[:60]},
                              {"src": srcs[i], "list_type": lt, "index": prog[failed - 1]["b"]},
                              f"index {prog[failed - 1]['b']} accepted for a list of type {lt} but out of range at run time")
        for n, st in enumerate(prog, 1):
            name_ = f"v{n}"
            if name_ not in vals or name_ not in types:
                continue
            v, cls, rep = vals[name_]
            if v is Unparsed:
                continue
            try:
                ok = member(v, parse_type(types[name_]))
            except Unparsed:
                unparsed += 1
                k_ = re.sub(r"-?\d+(\.\d+)?|\"[^\"]*\"", "_", types[name_])[:40]
                unparsed_kinds[k_] = unparsed_kinds.get(k_, 0) + 1
                continue
            judged += 1
            if not ok:
                root = root_cause(prog, n)
                ctx.violation({"kind": "value-outside-inferred-type", **({"root": root, "type": "refinement-or-class"} if root else
                                                                          {**stmt_sig(rec, st), "type": re.sub(r"-?\d+(\.\d+)?", "N", types[name_])[:60]})},
                              {"src": srcs[i], "binding": name_, "reported_type": types[name_], "runtime_value": rep, "runtime_class": cls},
                              f"binding {name_} ({shape(st)}) has inferred type {types[name_]} but holds {rep} ({cls}) at run time")
            # the specification's value for the binding (model conformance, counted only)
            if rec["vals"][n - 1] != "" and str(v) != rec["vals"][n - 1] and not isinstance(v, str):
                ctx.add("spec_value_disagreements")
    ctx.add("programs", len(recs))
    ctx.add("accepted_programs", accepted)
    ctx.add("judged", judged)
    if want == "C34":
        ctx.add("bindings_with_unparsed_type", unparsed)
        ctx.set("unparsed_type_forms", dict(sorted(unparsed_kinds.items(), key=lambda kv: -kv[1])[:8]))
    ctx.set("runtime_outcomes", excs)
    return accepted, judged


def run(ctx):
    vh, _ = build_core()
    stage_erg_path()
    quick = ctx.tier == "quick"
    model_checks(ctx)
    r, recs = derive("MC_TypedProg_sim.cfg", 3 if quick else 12, 9, ctx.seed, "c34", per_shape=2 if quick else 40)
    ctx.tlc_stats(r, "TypedProg.tla (simulation, 9 statements)")
    rc, recs_c = derive("MC_TypedProg_coll.cfg", 4 if quick else 12, 9, ctx.seed + 1, "c34c", per_shape=4 if quick else 60)
    ctx.tlc_stats(rc, "TypedProg.tla (simulation, strings and lists)")
    recs = recs + recs_c
    accepted, judged = evaluate(ctx, vh, recs, "c34", "C34")
    ctx.set("distinct_nontrivial", len(recs))
    ctx.set("rule", "distinct derived programs of 9 statements; every top-level binding with a parseable reported type is one judgement")
    if accepted < len(recs) // 3 or judged < accepted:
        raise ToolError(f"vacuous: {accepted} accepted of {len(recs)}, {judged} bindings judged")
    ctx.sample({"program": render(recs[0]["prog"]), "spec_types": recs[0]["ty"], "spec_values": recs[0]["vals"]})


def replay(path):
    d = json.load(open(path))
    vh, _ = build_core()
    stage_erg_path()
    w = scratch("c34_replay")
    src = d["src"]
    chk = vh_all(vh, "check", [{"id": 0, "src": src, "mode": "check", "hir": True}], jobs=1, env=erg_env(None))[0]
    o = compile_and_run(vh, [src], w, opt=0, jobs=1, dump=True)[0]
    shutil.rmtree(w, ignore_errors=True)
    print(src)
    print("reported types:", reported_types(chk.get("hir")))
    print("run:", json.dumps({k: v for k, v in (o["run"] or {}).items() if k != "globals"}))
    print("values:", {k: v[2] for k, v in runtime_bindings(o["run"] or {}).items()})
    return 0
