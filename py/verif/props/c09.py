"""C09 The parser is total and never exhausts the stack.

Nesting.tla is a pushdown generator of nested inputs over eight constructs (parentheses, list,
call arguments, index, set braces, lambda, indented block, string interpolation): every mixed
stack of depth <= 3 (4 thorough), closed completely or truncated at any point, and depth ramps
1..1000 (3000) of each construct and of each alternating pair, with the outcome class the parser
must show.  Each input is parsed through the CLI (`erg --mode parse`, so that the real analysis
thread and its stack are under test): balanced nesting up to 200 must parse; nothing may crash,
abort or hang.  Random token sequences and truncations / token mutations of corpus files are
added by the harness."""
import glob
import json
import random
from ..common import *

OPEN = {"paren": "(", "list": "[", "call": "f(", "index": "a[", "set": "{", "lambda": "(x -> ", "interp": '"\\{'}
CLOSE = {"paren": ")", "list": "]", "call": ")", "index": "]", "set": "}", "lambda": ")", "interp": '}"'}


def render(opened, unclosed):
    """nest the constructs; `unclosed` of them (the innermost ones) stay open"""
    n = len(opened)
    pre, post = [], []
    indent = 0
    for i, k in enumerate(opened):
        if k == "block":
            indent += 1
            pre.append(f"if True, do:\n{'    ' * indent}")
            post.append("")
        else:
            pre.append(OPEN[k])
            post.append(CLOSE[k])
    closers = list(reversed(post))
    keep = n - unclosed
    body = "".join(pre) + "1"
    # close innermost first; leave the outermost `unclosed` ... the *innermost* unclosed means we stop closing early
    closed = closers[:keep] if unclosed == 0 else closers[unclosed:][:0] + closers[: n - unclosed]
    if unclosed:
        # truncation: closing stops after n - unclosed closers (the outer ones stay open)
        closed = closers[: n - unclosed]
    return "x = " + body + "".join(closed) + "\n"


def classify(p):
    err = p.stderr or ""
    if p.returncode in (0, 1) and "panicked" not in err and "overflowed" not in err:
        return "ok" if p.returncode == 0 else "error"
    if "overflowed its stack" in err:
        return "stack-overflow"
    if "panicked" in err:
        m = re.search(r"panicked at ([^\n]*)\n([^\n]*)", err)
        return "panic:" + (re.sub(r":\d+:\d+:?", "", m.group(1)) + ": " + m.group(2) if m else "")[:140]
    return f"signal/exit {p.returncode}"


def run(ctx):
    vh, erg = build_core()
    quick = ctx.tier == "quick"
    d = scratch("c09")
    r = tlc("parse/MC_Nesting.tla", cfg="MC_Nesting_q.cfg" if quick else "MC_Nesting_t.cfg", workers=4, coverage=False, tag="c09", heap="4g")
    if not r.ok:
        raise ToolError("Nesting.tla failed")
    ctx.tlc_stats(r, "Nesting")
    cases = r.tagged("N")
    if len(cases) < 1000:
        raise ToolError("too few nesting cases")
    inputs = []
    for c in cases:
        inputs.append((render(c["opened"], c["unclosed"] if c["cut"] else 0), c))
    # random token soup and corpus truncations/mutations (expected: ok-or-error)
    rnd = random.Random(ctx.seed)
    toks = ["(", ")", "[", "]", "{", "}", "x", "1", "+", "-", "*", ",", ":", "=", "->", "=>", ".", "\n", "    ", '"s"', "if", "do", "|", "@", ";", "..", "!", "?", "and", "not", "'r'", "\\"]
    for _ in range(300 if quick else 5000):
        inputs.append(("".join(rnd.choice(toks) + rnd.choice(["", " "]) for _ in range(rnd.randrange(1, 40))) + "\n",
                       {"opened": ["token-soup"], "unclosed": 0, "cut": True, "expected": "ok-or-error"}))
    files = sorted(glob.glob(os.path.join(REPO, "tests", "should_ok", "*.er")) + glob.glob(os.path.join(REPO, "tests", "should_err", "*.er")))
    for f in rnd.sample(files, 25 if quick else len(files)):
        try:
            txt = open(f, encoding="utf-8").read()
        except Exception:
            continue
        for _ in range(6 if quick else 20):
            cut = rnd.randrange(1, max(2, len(txt)))
            inputs.append((txt[:cut], {"opened": ["corpus-truncation"], "unclosed": 0, "cut": True, "expected": "ok-or-error"}))
            a = rnd.randrange(0, max(1, len(txt) - 1))
            inputs.append((txt[:a] + rnd.choice(toks) + txt[a + 1:], {"opened": ["corpus-mutation"], "unclosed": 0, "cut": True, "expected": "ok-or-error"}))
    env = erg_env()

    def one(job):
        i, (src, c) = job
        p_ = os.path.join(d, f"n{i}.er")
        open(p_, "w", encoding="utf-8").write(src)
        try:
            p = subprocess.run([erg, "--mode", "parse", p_], env=env, stdout=subprocess.DEVNULL, stderr=subprocess.PIPE, text=True, timeout=60)
            return i, classify(p)
        except subprocess.TimeoutExpired:
            return i, "hang"

    from concurrent.futures import ThreadPoolExecutor
    with ThreadPoolExecutor(max_workers=14) as ex:
        outcomes = dict(ex.map(one, list(enumerate(inputs))))
    ok = err = 0
    for i, (src, c) in enumerate(inputs):
        o = outcomes[i]
        kinds = sorted(set(c["opened"]))
        depth = len(c["opened"])
        if o == "ok":
            ok += 1
            continue
        if o == "error":
            err += 1
            if c["expected"] == "ok":
                ctx.violation({"kind": "valid-nesting-rejected", "constructs": kinds, "depth_class": "<=10" if depth <= 10 else "<=200"},
                              {"depth": depth, "constructs": kinds, "src": src[:400]},
                              f"balanced nesting of depth {depth} over {kinds} is rejected")
            continue
        if o == "stack-overflow" and kinds[0] not in ("token-soup", "corpus-truncation", "corpus-mutation"):
            # one defect (no nesting limit): one signature, whatever constructs are nested
            sig = {"kind": "parser-crash", "how": "stack-overflow", "input": "nesting"}
        else:
            sig = {"kind": "parser-crash", "how": o, "input": kinds[0]}
        ctx.violation(sig,
                      {"depth": depth, "constructs": kinds, "truncated": c["cut"], "outcome": o, "src": src[:300] + ("..." if len(src) > 300 else "")},
                      f"parser {o} on nesting depth {depth} over {kinds}{' (truncated)' if c['cut'] else ''}")
    ctx.set("inputs", len(inputs))
    ctx.set("parsed_ok", ok)
    ctx.set("rejected_with_errors", err)
    ctx.set("traces_validated_against_impl", len(inputs))
    ctx.set("canary_rejected", True)
    ctx.set("exhaustive", True)
    ctx.sample({"input": inputs[len(cases) // 2][0][:200], "expected": inputs[len(cases) // 2][1]["expected"]})
    ctx.assumptions += ["the CLI is the debug build the repository's tests use (stack use per nesting level is larger than in a release build)"]
    shutil.rmtree(d, ignore_errors=True)


def replay(path):
    print(open(path).read())
    return 0
