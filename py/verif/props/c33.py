"""C33 An accepted match always has an arm that matches.

MatchProg.tla derives every match over a scrutinee type (Int, Nat, Str, Bool, a literal enum, an
interval, unions) with up to MaxArms literal, class and wildcard arms, together with the run-time
meaning (first matching arm per value of the type's sampled domain) and the checker's coverage
rule; TLC checks RuleSound (the rule accepts only covered matches) in every reachable state.
Every derived match is rendered as `m(x: T) = match x: ...` plus one call per domain value and
given to the real compiler: if it is accepted, every call must return (no value of T may be
left without an arm -- judged by the specification and, independently, by a Python rendering of
the arms), and the run must not fail."""
from ..common import *

LEVEL = "model_checking"


def lit(v):
    if v["t"] == "int": return str(v["n"])
    if v["t"] == "str": return json.dumps(v["s"])
    if v["t"] == "bool": return "True" if v["b"] else "False"
    raise ValueError(v)


def pyval(v):
    return v["n"] if v["t"] == "int" else v["s"] if v["t"] == "str" else v["b"]


def render(rec):
    L = [f"m(x: {rec['T']}) = match x:"]
    for i, a in enumerate(rec["arms"], 1):
        if a["k"] == "lit": L.append(f"    {lit(a['v'])} -> {i}")
        elif a["k"] == "cls": L.append(f"    (_: {a['v']['c']}) -> {i}")
        else: L.append(f"    _ -> {i}")
    calls = sorted(rec["calls"], key=lambda c: (c["arm"] != 0, lit(c["v"])))   # unmatched values first
    for c in calls:
        arg = lit(c["v"])
        L.append(f"print! m({arg})")
    return "\n".join(L) + "\n", calls


def py_first_match(arms, v):
    """independent rendering of the arms (Python semantics of the generated code)"""
    for i, a in enumerate(arms, 1):
        if py_matches(a, v):
            return i
    return 0


def py_matches(a, v):
    x = pyval(v)
    for i in (1,):
        if a["k"] == "wild":
            return i
        if a["k"] == "cls":
            c = a["v"]["c"]
            if c in IV:
                lo, hi = IV[c]
                ok = isinstance(x, int) and lo <= x <= hi
            else:
                ok = {"Int": isinstance(x, int), "Nat": isinstance(x, int) and x >= 0, "Str": isinstance(x, str), "Bool": isinstance(x, bool)}[c]
            if ok:
                return i
        elif a["k"] == "lit":
            y = pyval(a["v"])
            if (isinstance(x, str) or isinstance(y, str)) and not (isinstance(x, str) and isinstance(y, str)):
                continue
            if x == y:
                return i
    return 0


IV = {"1..2": (1, 2), "0<..<4": (1, 3), "0..<3": (0, 2), "1<..3": (2, 3)}      # inclusive integer bounds of each interval pattern


def arm_shape(rec):
    return [a["k"] if a["k"] != "cls" else ("interval" if a["v"]["c"] in IV else a["v"]["c"]) for a in rec["arms"]]


def run(ctx):
    vh, _ = build_core()
    stage_erg_path()
    quick = ctx.tier == "quick"
    r = tlc("lang/MC_MatchProg.tla", cfg="MC_MatchProg_q.cfg" if quick else "MC_MatchProg_t.cfg", workers=8, coverage=False, tag="c33",
            timeout=2400)
    ctx.tlc_stats(r, "MatchProg.tla (RuleSound, exhaustive)")
    if not r.ok:
        ctx.model_drift("MatchProg.tla: " + str(r.invariant_violated) + r.out[-600:])
        return
    recs = r.tagged("M")
    ctx.set("matches_derived", len(recs))
    import random
    rnd = random.Random(ctx.seed)
    cov = [x for x in recs if x["accepted"]]
    rest = [x for x in recs if not x["accepted"]]
    recs = rnd.sample(cov, min(len(cov), 1000 if quick else 9000)) + rnd.sample(rest, min(len(rest), 600 if quick else 5000))
    rendered = [render(x) for x in recs]
    d = scratch("c33")
    res = compile_and_run(vh, [s for s, _ in rendered], d, opt=1, jobs=14)
    shutil.rmtree(d, ignore_errors=True)
    accepted = drift_acc = drift_rej = arm_dis = oracle_dis = 0
    samples_dis = []
    for rec, (src, calls), rr in zip(recs, rendered, res):
        o = rr["compile"]
        if "panic" in o or "hang" in o or "abort" in o:
            continue
        ok = bool(o.get("ok"))
        if ok != rec["accepted"]:
            if ok: drift_acc += 1
            else: drift_rej += 1
        if not ok:
            continue
        accepted += 1
        run_ = rr["run"] or {}
        out = (run_.get("out") or "").split()
        unmatched = [c for c in calls if c["arm"] == 0]
        py_unmatched = [c for c in calls if py_first_match(rec["arms"], c["v"]) == 0]
        if [lit(c["v"]) for c in unmatched] != [lit(c["v"]) for c in py_unmatched]:
            oracle_dis += 1
            continue
        if unmatched:
            v = unmatched[0]["v"]
            ctx.violation({"kind": "accepted-match-not-exhaustive", "scrutinee": rec["T"], "arms": arm_shape(rec)},
                          {"src": src, "unmatched_value": lit(v), "run": {"exc": run_.get("exc"), "msg": run_.get("exc_msg"), "out": out}},
                          f"match over {rec['T']} with arms {arm_shape(rec)} accepted but {lit(v)} matches no arm (run: {run_.get('exc') or out[:1]})")
            continue
        if run_.get("exc"):
            ctx.violation({"kind": "accepted-match-fails-at-run-time", "scrutinee": rec["T"], "arms": arm_shape(rec), "exception": run_.get("exc")},
                          {"src": src, "run": {"exc": run_.get("exc"), "msg": run_.get("exc_msg"), "out": out}},
                          f"match over {rec['T']} with arms {arm_shape(rec)} accepted and covered but the run fails: {run_.get('exc')}: {run_.get('exc_msg')}")
            continue
        want = [str(c["arm"]) for c in calls]
        # the arm that ran must be one whose pattern matches the value: otherwise the value had no arm and fell
        # into another one (the last arm is entered unconditionally)
        wrong = [(c, o_) for c, o_ in zip(calls, out) if o_.isdigit() and 1 <= int(o_) <= len(rec["arms"]) and not py_matches(rec["arms"][int(o_) - 1], c["v"])]
        if wrong or len(out) != len(calls):
            c, o_ = wrong[0] if wrong else (calls[min(len(out), len(calls) - 1)], "?")
            ctx.violation({"kind": "value-runs-arm-that-does-not-match", "scrutinee": rec["T"], "arms": arm_shape(rec),
                           "value": c["v"]["t"], "ran": arm_shape(rec)[int(o_) - 1] if o_.isdigit() else "?"},
                          {"src": src, "value": lit(c["v"]), "expected_arm": c["arm"], "observed_arm": o_, "out": out},
                          f"match over {rec['T']} with arms {arm_shape(rec)}: value {lit(c['v'])} has arm {c['arm']} but arm {o_} ran, whose pattern does not match it")
            continue
        if out != want:
            arm_dis += 1
            if len(samples_dis) < 5:
                samples_dis.append({"src": src, "expected": want, "observed": out})
    ctx.set("matches", len(recs))
    ctx.set("accepted_by_checker", accepted)
    ctx.set("calls_run", sum(len(c) for (_, c), rr in zip(rendered, res) if rr["compile"].get("ok")))
    ctx.set("rule_transcription_drift", {"real_accepts_rule_rejects": drift_acc, "real_rejects_rule_accepts": drift_rej})
    ctx.set("selected_arm_disagreements", arm_dis)
    ctx.set("selected_arm_disagreement_samples", samples_dis)
    ctx.set("oracle_disagreements", oracle_dis)
    ctx.set("distinct_nontrivial", len(recs))
    ctx.set("rule", "distinct (scrutinee type, arm sequence) pairs; every accepted one is a judgement over all sampled values of the type")
    if accepted < 50:
        raise ToolError(f"vacuous: only {accepted} matches accepted")
    if oracle_dis * 100 > len(recs):
        raise ToolError("specification and Python rendering disagree on more than 1% of the matches")
    ctx.set("canary_rejected", any(not x["covered"] for x in recs))
    ctx.sample({"program": rendered[0][0], "spec": {"accepted": recs[0]["accepted"], "covered": recs[0]["covered"]}})


def replay(path):
    d = json.load(open(path))
    vh, _ = build_core()
    stage_erg_path()
    w = scratch("c33_replay")
    o = compile_and_run(vh, [d["src"]], w, opt=1, jobs=1)[0]
    shutil.rmtree(w, ignore_errors=True)
    print(d["src"])
    print(json.dumps({"accepted": o["compile"].get("ok"), "run": o["run"]}, indent=1)[:1500])
    return 0
