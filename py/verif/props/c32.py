"""C32 Refinement predicate combinators denote set operations.

Refinement.tla derives every predicate tree (prefix form) up to a depth bound and gives its
denotation Den(t) on an exact window.  Each tree is rebuilt through the real constructors
Predicate::{eq,ne,ge,gt,le,lt,and,or,invert}; the resulting data structure is evaluated point by
point (structural evaluator in vh/pred.rs) and must equal Den(t)."""
import json
from ..common import *


def window(consts):
    return min(consts) - 2, max(consts) + 2


CONSTS = {"C02": [0, 2], "C3": [-1, 0, 2], "C5": [-2, -1, 0, 1, 3]}


def trees_from(cfg, cname, ctx, tag, simulate=None, seed=None):
    r = tlc("types/MC_Refinement.tla", cfg=cfg, workers=8 if not simulate else 2, coverage=False, heap="8g",
            tag=tag, simulate=simulate, depth=80 if simulate else None, seed=seed, timeout=1500)
    if not r.ok:
        raise ToolError(f"Refinement.tla violates its own invariant {r.invariant_violated} in {cfg}")
    if not simulate:
        ctx.tlc_stats(r, f"Refinement {cfg}")
    recs = r.tagged("R")
    # de-duplicate (simulation can derive the same tree twice)
    seen, out = set(), []
    for x in recs:
        k = canon(x["t"])
        if k not in seen:
            seen.add(k)
            out.append(x)
    return out


def sig_of(m):
    return {"kind": m["kind"], "shape": m.get("shape")}


def run(ctx):
    vh, _ = build_core()
    quick = ctx.tier == "quick"
    total = bad = 0
    plan = [("MC_Ref_d1_c5.cfg", "C5", None), ("MC_Ref_d2_c2.cfg", "C02", None)]
    plan.append(("MC_Ref_sim.cfg", "C3", 1500 if quick else 40000))
    nontrivial = 0
    for cfg, cname, sim in plan:
        trees = trees_from(cfg, cname, ctx, "c32", simulate=sim, seed=ctx.seed)
        lo, hi = window(CONSTS[cname])
        if len(trees) < 100:
            raise ToolError(f"too few trees from {cfg}")
        parts = list(chunks(trees, max(1, (len(trees) + 7) // 8)))
        res = run_vh(vh, "pred", [{"mode": "c32", "lo": lo, "hi": hi, "trees": p} for p in parts], jobs=len(parts))
        summ = [x for x in res if "summary" in x]
        n = sum(s["summary"]["trees"] for s in summ)
        if n != len(trees):
            raise ToolError("harness did not evaluate every tree")
        total += n
        nontrivial += sum(1 for x in trees if len(x["t"]) > 1)
        uneval = sum(s["summary"]["unevaluable"] for s in summ)
        ctx.add("unevaluable_structures", uneval)
        if uneval:
            raise ToolError(f"{uneval} predicates use a structure the evaluator does not know (fail closed)")
        for m in res:
            if "summary" in m:
                continue
            ctx.violation(sig_of(m), {"tree": m["t"], "mismatch": m, "window": [lo, hi]},
                          f"{m['kind']} for {m.get('shape')}: built {m.get('pred')} denotes {m.get('observed')} expected {m.get('expected')}")
        ctx.sample({"tree": trees[len(trees) // 2]["t"], "den": trees[len(trees) // 2]["den"], "window": [lo, hi]})
        # canary per plan entry
        can = json.loads(json.dumps(trees[len(trees) // 3]))
        can["den"] = sorted(set(can["den"]) ^ {lo})
        cres = run_vh(vh, "pred", [{"mode": "c32", "lo": lo, "hi": hi, "trees": [can]}])
        if cres[-1]["summary"]["mismatches"] != 1:
            raise ToolError("canary (corrupted denotation) not rejected")
    ctx.set("canary_rejected", True)
    ctx.set("traces_validated_against_impl", total)
    ctx.set("evaluations", total)
    ctx.set("distinct_nontrivial", nontrivial)
    ctx.set("rule", "distinct predicate trees; non-trivial = contains at least one combinator")
    ctx.set("exhaustive", True)
    ctx.set("explanation_bounds", "exhaustive: all trees of depth <= 1 over 5 constants and depth <= 2 over 2 constants "
            "(atoms have depth 0); sampled: depth <= 4 over 3 constants")
    ctx.assumptions += ["the structural evaluator in harness/vh/src/pred.rs (Equal, NotEqual, GreaterEqual, LessEqual, And, Or, Not, Value)",
                        "window exactness: every atom is constant beyond the constants (checked by TLC: WindowExact)"]


def replay(path):
    vh, _ = build_core()
    doc = json.load(open(path))
    lo, hi = doc["window"]
    print(json.dumps(run_vh(vh, "pred", [{"mode": "c32", "lo": lo, "hi": hi,
                                           "trees": [{"t": doc["tree"], "den": doc["mismatch"].get("expected", [])}]}]), indent=1))
    return 0
