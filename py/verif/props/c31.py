"""C31 Module path normalisation identifies only identical files.

PathNorm.tla builds every path of <= MaxLen components over {., .., a, b} (absolute and
relative); TLC emits each with its reference canonical form (RefNorm, which a separate TLC run
shows to characterise "resolves to the same file from every working directory").  Each path is
normalised by the real NormalizedPathBuf::new; the check judges idempotence and that no two
paths with different reference forms are identified."""
import json
from ..common import *


def to_str(absolute, comps):
    s = "/".join(comps)
    return ("/" + s) if absolute else s


def run(ctx):
    vh, _ = build_core()
    quick = ctx.tier == "quick"
    # lemma: RefNorm(q) = RefNorm(r)  <=>  q and r resolve alike from every cwd (paths <= 3 comps)
    rl = tlc("path/MC_PathNormLemma.tla", cfg="MC_PathNormLemma.cfg", workers=4, coverage=False, tag="c31l")
    if not rl.ok:
        raise ToolError("PathNorm lemma (RefNorm characterises same-file) fails: specification error")
    # layer B (transcription of the code with the pre-fix behaviour) must be refuted: model canary
    rb = tlc("path/MC_PathNorm.tla", cfg="MC_PathNorm_bug.cfg", workers=2, coverage=False, tag="c31b")
    if rb.invariant_violated != "BKeepsLeadingParents":
        raise ToolError("model canary: pop-on-empty transcription was not refuted by TLC")
    cfg = "MC_PathNorm_q.cfg" if quick else "MC_PathNorm_t.cfg"
    r = tlc("path/MC_PathNorm.tla", cfg=cfg, workers=8, coverage=False, tag="c31", heap="8g")
    ctx.tlc_stats(r, f"PathNorm {cfg}")
    if not r.ok:
        ctx.model_drift(f"layer B transcription violates {r.invariant_violated}")
    recs = r.tagged("P")
    if len(recs) != r.distinct or len(recs) < 10000:
        raise ToolError(f"emission incomplete: {len(recs)} records for {r.distinct} states")
    inputs = [{"s": to_str(x["abs"], x["comps"])} for x in recs]
    res = run_vh(vh, "pathnorm", inputs, jobs=8)
    if len(res) != len(recs):
        raise ToolError("harness returned a different number of records")
    groups = {}
    nontrivial = 0
    for x, o in zip(recs, res):
        s = o["s"]
        if "panic" in o:
            ctx.violation({"kind": "panic", "site": o["panic"]}, {"path": s, "reproduce": "bin/check C31 --replay <this file>"},
                          f"NormalizedPathBuf::new panicked on {s!r}: {o['panic']}")
            continue
        if ".." in x["comps"] or "." in x["comps"]:
            nontrivial += 1
        if o["n"] != o["nn"] or not o["eq"]:
            ctx.violation({"kind": "not-idempotent"}, {"path": s, "n": o["n"], "nn": o["nn"]},
                          f"normalisation not idempotent on {s!r}: {o['n']!r} -> {o['nn']!r}")
        ref = to_str(x["abs"], x["ref"])
        groups.setdefault(o["n"], {}).setdefault(ref, s)
    for n, refs in groups.items():
        if len(refs) > 1:
            items = sorted(refs.items())
            lead = [k for k, _ in items if k.startswith("..")]
            kind = "drops-leading-parent" if lead else "identifies-different-files"
            ctx.violation({"kind": kind},
                          {"normalised": n, "paths": [v for _, v in items][:6], "reference_forms": [k for k, _ in items][:6]},
                          f"paths denoting different files share the normal form {n!r}: " + ", ".join(repr(v) for _, v in items[:4]))
    # canary: a corrupted reference form must produce a collision report
    g2 = {}
    for x, o in list(zip(recs, res))[:50]:
        g2.setdefault(o.get("n"), set()).add(to_str(x["abs"], x["ref"]))
    g2.setdefault(res[0].get("n"), set()).add("corrupted")
    if not any(len(v) > 1 for v in g2.values()):
        raise ToolError("canary not rejected")
    ctx.set("canary_rejected", True)
    ctx.set("traces_validated_against_impl", len(recs))
    ctx.set("evaluations", len(recs))
    ctx.set("distinct_nontrivial", nontrivial)
    ctx.set("rule", "every path of <= MaxLen components over {., .., a, b}, absolute and relative; non-trivial = contains . or ..")
    ctx.set("exhaustive", True)
    ctx.set("normal_form_classes", len(groups))
    for i in (7, len(recs) // 2, len(recs) - 3):
        ctx.sample({"path": inputs[i]["s"], "reference_form": to_str(recs[i]["abs"], recs[i]["ref"]), "impl": res[i].get("n")})
    ctx.assumptions += ["symlink-free file tree (the normaliser is purely lexical)",
                        "only the direction 'identified => same file' is judged, as the property states"]


def replay(path):
    vh, _ = build_core()
    doc = json.load(open(path))
    ps = doc.get("paths") or [doc.get("path")]
    print(json.dumps(run_vh(vh, "pathnorm", [{"s": p} for p in ps]), indent=1))
    return 0
