"""C26 Runtime classes agree with Python and with their declared types.

RuntimeOps.tla is a state machine over one object of the runtime classes: every action applies
an operator (with a wrapper or a plain Python operand, on either side), a unary operator, a
method, .mutate() or an in-place operation of a mutable cell, and the next state is the value
Python's built-ins compute in the class the Erg declaration promises.  TLC checks NatNonNeg and
ClassOfValue on every reachable state (and finds 0.dec!() = -1 when the machine has dec! on Nat!
cells as the runtime has it).  Behaviours -- the exhaustive operand-pair grid and simulated
chains of six operations -- are replayed on the real classes (staged lib/core) under every
supported interpreter: after each step the result must equal what the built-ins give for the
plain operands, belong to the declared class, and no Nat instance may be negative."""
from ..common import *

LEVEL = "model_checking"


def run(ctx):
    stage_erg_path()
    quick = ctx.tier == "quick"
    ro = tlc("lang/MC_RuntimeOps.tla", cfg="MC_RuntimeOps_pairs_q.cfg" if quick else "MC_RuntimeOps_pairs.cfg", workers=8,
             coverage=False, tag="c26p", timeout=2400)
    ctx.tlc_stats(ro, "RuntimeOps.tla (exhaustive: every start object x operation x operand)")
    if not ro.ok:
        raise ToolError("RuntimeOps.tla: TLC reports " + str(ro.invariant_violated) + " on the operand-pair grid")
    behs = ro.tagged("R")
    seen = set()
    for cfg, what in (("MC_RuntimeOps_sim.cfg", "chains of 4 operations"), ("MC_RuntimeOps_cells.cfg", "chains of 5 unary/method/cell operations")):
        rs = tlc("lang/MC_RuntimeOps.tla", cfg=cfg, workers=8, coverage=False, tag="c26s", simulate=12 if quick else 60,
                 depth=8, seed=ctx.seed, timeout=2400)
        ctx.tlc_stats(rs, f"RuntimeOps.tla (simulation: {what})")
        if not rs.ok:
            raise ToolError("RuntimeOps.tla: TLC reports " + str(rs.invariant_violated) + " in simulation")
        for b in rs.tagged("R"):
            k = canon(b)
            if k not in seen:
                seen.add(k)
                behs.append(b)
    # a deterministic, bounded selection: all behaviours of the grid, and of the simulated ones an even spread
    # over (kinds of the last two steps)
    grid_n = ro.distinct and len(ro.tagged("R"))
    sims = sorted(behs[grid_n:], key=canon)
    cap = 6000 if quick else 60000
    if len(sims) > cap:
        buckets = {}
        for b in sims:
            buckets.setdefault(tuple(s_["k"] + s_["op"] for s_ in b["steps"][-2:]), []).append(b)
        per = max(1, cap // len(buckets))
        sims = [b for k_ in sorted(buckets) for b in buckets[k_][:: max(1, len(buckets[k_]) // per)][:per]]
    behs = behs[:grid_n] + sims
    # design-level canaries: the machine with dec! on Nat! cells / with Int ** Int : Nat is rejected by TLC
    for cfg, key in (("MC_RuntimeOps_natdec.cfg", "canary_natdec"), ("MC_RuntimeOps_pownat.cfg", "canary_pownat")):
        rc = tlc("lang/MC_RuntimeOps.tla", cfg=cfg, workers=4, coverage=False, tag="c26c")
        ctx.set(key, rc.invariant_violated == "NatNonNeg")
        if rc.invariant_violated != "NatNonNeg":
            raise ToolError(f"canary {cfg}: NatNonNeg not violated")
    ctx.set("canary_rejected", True)
    targets = ["3.11", "3.7"] if quick else ["3.7", "3.8", "3.9", "3.10", "3.11"]
    lib = os.path.join(STAGE, "erg", "lib", "core")
    runner = os.path.join(VERIF, "py", "verif", "rtops.py")
    steps = oracle_dis = 0
    for t in targets:
        p = subprocess.run([PYTHONS[t], runner, lib], input=json.dumps(behs), stdout=subprocess.PIPE, stderr=subprocess.PIPE, text=True, timeout=1800)
        if p.returncode != 0:
            raise ToolError(f"replay under python {t} failed: " + p.stderr[-800:])
        res = json.loads(p.stdout)
        for beh, verdicts in zip(behs, res):
            for v in verdicts:
                steps += 1
                if v.get("oracle"):
                    oracle_dis += 1
                    continue
                if "bad" in v:
                    if v["i"] == 0:
                        raise ToolError("cannot construct start object: " + json.dumps(v))
                    st = beh["steps"][v["i"] - 1]
                    prev = beh["start"] if v["i"] == 1 else beh["steps"][v["i"] - 2]["res"]
                    ctx.violation({"kind": "runtime-class-" + v["bad"], "receiver": prev["cls"], "step": st["k"], "operation": st["op"],
                                   "operand": st["other"]["cls"] if st["k"] not in ("un", "meth", "mutate", "decbelow") else None},
                                  {"behaviour": beh, "failing_step": v["i"], "verdict": v, "python": t},
                                  f"python {t}: {prev['cls']}({prev['v']}) {st['k']} {st['op']} {st['other']['cls']}({st['other']['v']}): {v['bad']}: expected {v.get('want')}, got {v.get('got')} ({v.get('got_class')})")
    ctx.set("behaviours", len(behs))
    ctx.set("steps_replayed", steps)
    ctx.set("targets", targets)
    ctx.set("oracle_disagreements", oracle_dis)
    ctx.set("distinct_nontrivial", len(behs))
    ctx.set("rule", "distinct behaviours of RuntimeOps.tla (start object plus operation sequence); each replayed step is a judgement per interpreter")
    if oracle_dis * 100 > steps:
        raise ToolError(f"specification and CPython disagree on {oracle_dis} of {steps} steps")
    ctx.sample(behs[0])
    ctx.sample(behs[-1])


def replay(path):
    d = json.load(open(path))
    stage_erg_path()
    lib = os.path.join(STAGE, "erg", "lib", "core")
    runner = os.path.join(VERIF, "py", "verif", "rtops.py")
    p = subprocess.run([PYTHONS[d.get("python", "3.11")], runner, lib], input=json.dumps([d["behaviour"]]), stdout=subprocess.PIPE, text=True)
    print(json.dumps(d["behaviour"]))
    print(p.stdout)
    return 1 if '"bad"' in p.stdout else 0
