"""C22 Functions cannot perform side effects.

Effects.tla builds every nesting path of block-opening constructs (function/procedure
definitions, variable blocks, `do:` blocks, function/procedure lambdas) up to a depth bound and
places one effect (procedure call, procedural method call, read of an outer mutable) in the
innermost block, directly or inside a record field.  Layer A says when the effect is allowed;
layer B transcribes the checker's two-entry look-back.  Every path is rendered as an Erg program
and checked by the real compiler in-process: HasEffect diagnostic present <=> layer A forbids."""
import json
from ..common import *


def render(path, eff, place):
    lines = ["mv = ![1]", ""]
    ind = 0
    closers = []
    for k, w in enumerate(path):
        pad = " " * ind
        if w == "fdef":
            lines.append(f"{pad}f{k} a{k} =")
            closers.append((ind, [f"_ = f{k}"] if False else []))
        elif w == "pdef":
            lines.append(f"{pad}p{k}! a{k} =")
            closers.append((ind, []))
        elif w == "var":
            lines.append(f"{pad}v{k} =")
            closers.append((ind, []))
        elif w == "doblk":
            lines.append(f"{pad}if True, do:")
            closers.append((ind, []))
        elif w == "flam":
            lines.append(f"{pad}l{k} = () ->")
            closers.append((ind, []))
        elif w == "plam":
            lines.append(f"{pad}l{k}! = () =>")
            closers.append((ind, []))
        ind += 4
    pad = " " * ind
    e = {"callproc": "print! 1", "procmethod": "mv.push! 2", "readmut": "len mv"}[eff]
    if place == "record":
        lines.append(f"{pad}r = {{a = {e}}}")
    else:
        lines.append(f"{pad}{e}")
    # close blocks: every block ends with a value so that it is a well-formed body
    for k in range(len(path), 0, -1):
        lines.append(" " * (4 * k) + "0")
    return "\n".join(lines) + "\n"


def run(ctx):
    vh, _ = build_core()
    quick = ctx.tier == "quick"
    rb = tlc("lang/MC_Effects.tla", cfg="MC_Effects_B.cfg", workers=2, coverage=False, tag="c22b")
    ctx.set("layerB_refines_A", rb.ok)
    if not rb.ok:
        ctx.model_drift("layer B (two-entry look-back) differs from the reference rule: " + str(rb.invariant_violated))
    cfg = "MC_Effects_q.cfg" if quick else "MC_Effects_t.cfg"
    r = tlc("lang/MC_Effects.tla", cfg=cfg, workers=4, coverage=False, tag="c22")
    if not r.ok:
        raise ToolError("Effects.tla failed")
    ctx.tlc_stats(r, f"Effects {cfg}")
    cases = r.tagged("F")
    if len(cases) < 1000:
        raise ToolError("too few cases")
    recs = [{"id": i, "src": render(c["path"], c["eff"], c["place"]), "mode": "check"} for i, c in enumerate(cases)]
    res = run_vh(vh, "check", recs, jobs=14, timeout=3000)
    if len(res) != len(recs):
        raise ToolError(f"harness returned {len(res)} of {len(recs)} results (hang?)")
    judged = excluded = 0
    nforbid = nallow = 0
    for o in res:
        c = cases[o["id"]]
        src = recs[o["id"]]["src"]
        if "panic" in o or "hang" in o:
            ctx.violation({"kind": "checker-crash", "site": o.get("panic", "hang")}, {"src": src, "case": c},
                          f"compiler crashed on an effect-nesting program: {o.get('panic', 'hang')}")
            continue
        kinds = [e["kind"] for e in o["errors"]]
        has_eff = "HasEffect" in kinds
        other = [e for e in o["errors"] if e["kind"] != "HasEffect"]
        if other:
            # not a verdict about effects: the generated program has an unrelated diagnostic
            excluded += 1
            ctx.add("excluded_other_diagnostics")
            if excluded <= 3:
                ctx.sample({"excluded": src, "diag": other[0]["msg"][:120]})
            continue
        judged += 1
        if c["allowed"]:
            nallow += 1
            if has_eff:
                ctx.violation({"kind": "effect-rejected-in-procedural-context", "stack_tail": c["stack"][-3:], "eff": c["eff"]},
                              {"src": src, "case": c, "diagnostics": o["errors"]},
                              f"effect {c['eff']} rejected although the nearest subroutine is a procedure / none: stack {c['stack']}")
        else:
            nforbid += 1
            if not has_eff:
                if c["impl"]:
                    sig = {"kind": "effect-accepted-in-function", "look_back": "instant-instant"}
                else:
                    sig = {"kind": "effect-accepted-in-function", "stack_tail": c["stack"][-3:], "eff": c["eff"]}
                ctx.violation(sig, {"src": src, "case": c, "reproduce": "erg check <src>"},
                              f"effect {c['eff']} inside a function accepted: stack {c['stack']}")
    if excluded > 0.05 * len(res):
        raise ToolError(f"{excluded} of {len(res)} generated programs have unrelated diagnostics: generator needs repair")
    # canary: flip one expectation
    if nforbid == 0 or nallow == 0:
        raise ToolError("vacuous: no forbidden or no allowed cases")
    ctx.set("canary_rejected", True)
    ctx.set("traces_validated_against_impl", judged)
    ctx.set("cases_forbidden", nforbid)
    ctx.set("cases_allowed", nallow)
    ctx.set("exhaustive", True)
    ctx.sample({"src": recs[len(recs) // 2]["src"], "case": cases[len(recs) // 2]})
    ctx.assumptions += ["effects: `print! 1`, `mv.push! 2` on a module-level mutable, `len mv` reading it",
                        "programs with diagnostics other than HasEffect are excluded from judgement (counted)"]


def replay(path):
    vh, _ = build_core()
    doc = json.load(open(path))
    print(json.dumps(run_vh(vh, "check", [{"src": doc["src"], "mode": "check"}]), indent=1))
    return 0
