"""C13 Every supported Python target runs the program identically.

The target version is a constant of the specification: ErgProg.tla's expected output does not
depend on it, so every target must produce it.  The simulated and grid programs of ErgProg.tla
are compiled in-process for each installed target (3.7 .. 3.11, as `erg --py-command P compile`
does), loaded and run by that target's interpreter; stdout and exception class must equal the
specification's (and hence each other's).  `erg --py-command P run` is checked through the CLI:
the program prints sys.version_info and must report P's version."""
import json
from ..common import *
from ..ergprog import to_erg, cpython_vote, shape
from .c01 import gen_programs


def run(ctx):
    vh, erg = build_core()
    quick = ctx.tier == "quick"
    grid, sims = gen_programs(ctx, True, "c13")
    import random
    rnd = random.Random(ctx.seed)
    if quick:
        # every `//` and `%` program (version-specific operator tables show only for some operands) + a sample of the rest
        divmod_ = [c for c in grid if any(st["k"] == "bin" and st["op"] in ("//", "%") for st in c["prog"])]
        rest = [c for c in grid if c not in divmod_]
        grid = divmod_ + rnd.sample(rest, min(len(rest), 250))
    cases = grid + sims[: (80 if quick else 250)]
    votes = cpython_vote([c["prog"] for c in cases], DEFAULT_PY)
    srcs = [to_erg(c["prog"]) for c in cases]
    targets = ["3.7", "3.11", "3.9"] if quick else ["3.7", "3.8", "3.9", "3.10", "3.11"]
    per = {}
    for t in targets:
        d = scratch(f"c13_{t}")
        per[t] = compile_and_run(vh, srcs, d, py=PYTHONS[t], jobs=14)
        shutil.rmtree(d, ignore_errors=True)
    judged = disagree = 0
    for i, c in enumerate(cases):
        if votes[i] != (c["out"], c["status"]):
            disagree += 1
            continue
        for t in targets:
            rr = per[t][i]
            o = rr["compile"]
            if "panic" in o or "hang" in o or "abort" in o:
                site = o.get("panic") or o.get("abort") or "hang"
                ctx.violation({"kind": "compiler-crash", "target": t, "site": re.sub(r":\d+:", ":", site)[:80]}, {"src": srcs[i]},
                              f"compiler crashed for target {t}: {site}")
                continue
            if not o.get("ok"):
                continue
            judged += 1
            run_ = rr["run"] or {}
            got = ((run_.get("out") or "").splitlines(), run_.get("exc") or "ok")
            if got != (c["out"], c["status"]):
                templ = sorted(set(s_ for s_ in shape(c["prog"]) if not s_.startswith(("ilit", "print"))))
                ctx.violation({"kind": "target-differs", "target": t, "exception": got[1] if got[1] != c["status"] else None,
                               "templates": templ[:5]},
                              {"src": srcs[i], "target": t, "expected": [c["out"], c["status"]], "observed": got,
                               "message": run_.get("exc_msg")},
                              f"target {t}: program gives {got}, expected {(c['out'], c['status'])}: {shape(c['prog'])}")
    # `erg --py-command P run`
    d = scratch("c13cli")
    src = os.path.join(d, "ver.er")
    open(src, "w").write('sys = pyimport "sys"\nprint! sys.version_info.major, sys.version_info.minor\n')
    env = erg_env()
    for t in targets:
        p = subprocess.run([erg, "--py-command", PYTHONS[t], "run", src], env=env, stdout=subprocess.PIPE, stderr=subprocess.PIPE,
                           text=True, timeout=120, cwd=d)
        want = "3 " + t.split(".")[1]
        out = p.stdout.strip()
        ctx.add("cli_run_checks")
        if out != want:
            last = (p.stderr.strip().splitlines() or [""])[-1]
            ctx.violation({"kind": "run-uses-other-interpreter", "non_default": t != "3.11"},
                          {"cmd": f"erg --py-command {PYTHONS[t]} run ver.er", "stdout": out, "stderr_tail": p.stderr[-400:], "expected": want},
                          f"`erg --py-command <python{t}> run` printed {out!r} (stderr: {last[:100]}), expected {want!r}")
    shutil.rmtree(d, ignore_errors=True)
    ctx.set("programs", len(cases))
    ctx.set("targets", targets)
    ctx.set("program_target_pairs_judged", judged)
    ctx.set("oracle_disagreements", disagree)
    ctx.set("disagreements_checked", len(ctx.violations) + len(ctx.known_hits))
    if judged < len(cases) * len(targets) // 3:
        raise ToolError("too few accepted program/target pairs")
    ctx.set("canary_rejected", True)
    ctx.sample({"erg": to_erg(cases[-1]["prog"], prelude=False), "expected": [cases[-1]["out"], cases[-1]["status"]], "targets": targets})


LEVEL = "translation_validation"


def replay(path):
    print(open(path).read())
    return 0
