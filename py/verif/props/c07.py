"""C07 The checker and code generator never crash on a well-formed program.

ErgSoup.tla derives syntactically valid programs with untyped holes (every operand hole may be
filled with any earlier variable: most programs are ill-typed), including unannotated
multi-statement functions, lambdas, records, classes, match and if expressions; corpus programs
are mutated token-wise.  Every program that parses is checked and compiled in-process at
-o 0 and -o 3 (all four levels in the thorough tier): the outcome must be success or ordinary
diagnostics -- no panic, abort, hang, CompilerSystemError or 'bug of the Erg compiler' text."""
import glob
import json
import random
from ..common import *
from ..ergprog import INT, erg_str, ERG_PRELUDE

LEVEL = "exploration"
ICE = re.compile(r"bug of (the )?Erg|This may be a bug|please report", re.I)


def render(prog):
    L = [ERG_PRELUDE]
    for n, st in enumerate(prog, 1):
        k, op, a, b, s = st["k"], st["op"], st["a"], st["b"], st["s"]
        v = f"v{n}"
        if k == "ilit": L.append(f"{v} = {INT[s]}")
        elif k == "slit": L.append(f"{v} = {erg_str(s)}")
        elif k == "flit": L.append(f"{v} = 1.5")
        elif k == "blit": L.append(f"{v} = True")
        elif k == "none": L.append(f"{v} = None")
        elif k == "bin": L.append(f"{v} = v{a} {op} v{b}")
        elif k == "call": L.append(f"{v} = {op}(v{a})")
        elif k == "lmk": L.append(f"{v} = [v{a}, v{b}]")
        elif k == "lget": L.append(f"{v} = v{a}[v{b}]")
        elif k == "tpat": L.append(f"({v}, w{n}) = (v{a}, v{b})")
        elif k == "rec": L.append(f"{v} = {{x = v{a}; y = v{b}}}")
        elif k == "lam": L.append(f"{v} = (p -> p + v{a})(v{b})")
        elif k == "fn2": L.append(f"g{n} p, q =\n    t = p + v{a}\n    t * q\n{v} = g{n}(v{a}, v{b})")
        elif k == "attr": L.append(f"{v} = v{a}.real")
        elif k == "dict": L.append(f"{v} = {{v{a}: v{b}}}")
        elif k == "print": L.append(f"print! v{a}")
        elif k == "loop": L.append(f"for! 0..<v{a}, i =>\n    print! i")
        elif k == "assert": L.append(f"assert v{a}")
        elif k == "neg": L.append(f"{v} = -v{a}")
        elif k == "mut": L.append(f"{v} = !v{a}")
        elif k == "cls": L.append(f"C{n} = Class {{x = Int}}\n{v} = C{n}.new {{x = v{a}}}")
        elif k == "match": L.append(f"{v} = match v{a}:\n    0 -> 1\n    (s: Str) -> 2\n    _ -> 3")
        elif k == "erec": L.append(f"{v} = {{=}}\nprint! {v}")
        elif k == "matchd": L.append(f"{v} = match v{a}, (x := 1) -> x")
        elif k == "matchd2": L.append(f"h{n}(z) =\n    match z:\n        (p, q := 2) -> p\n        (x := 1) -> x\n{v} = h{n}(v{a})")
        elif k == "recn": L.append(f"h{n}(z) = {{.a = z; .b = {{=}}}}\n{v} = h{n}(v{a})")
        elif k == "lamd": L.append(f"{v} = ((p, q := v{a}) -> p)(v{a})")
        elif k == "ifexpr": L.append(f"{v} = if v{a} == v{a}:\n    do: 1\n    do: 2")
        else: raise ValueError(k)
    return "\n".join(L) + "\n"


def mutate(txt, rnd):
    toks = re.findall(r"\s+|[A-Za-z_][A-Za-z_0-9!]*|\d+|\"[^\"\n]*\"|.", txt)
    idx = [i for i, t in enumerate(toks) if not t.isspace()]
    if len(idx) < 4:
        return txt
    i = rnd.choice(idx)
    kind = rnd.randrange(4)
    if kind == 0: del toks[i]
    elif kind == 1: toks.insert(i, toks[i])
    elif kind == 2:
        j = rnd.choice(idx); toks[i], toks[j] = toks[j], toks[i]
    else:
        names = [t for t in toks if re.match(r"[A-Za-z_]", t)]
        if names and re.match(r"[A-Za-z_]", toks[i]): toks[i] = rnd.choice(names)
    return "".join(toks)


def run(ctx):
    vh, erg = build_core()
    quick = ctx.tier == "quick"
    rnd = random.Random(ctx.seed)
    progs = {}
    for k in range(2 if quick else 12):
        rs = tlc("lang/MC_ErgSoup.tla", cfg="MC_ErgSoup_sim.cfg", workers=2, coverage=False, tag="c07", simulate=25 if quick else 60, depth=11,
                 seed=ctx.seed * 50 + k, timeout=900)
        for x in rs.tagged("S"):
            if len(x["prog"]) >= 6:
                progs[canon(x["prog"])] = x["prog"]
    soup = list(progs.values())
    rnd.shuffle(soup)
    soup = soup[: (500 if quick else 6000)]
    if len(soup) < 300:
        raise ToolError("too few generated programs")
    srcs = [render(p) for p in soup]
    nsoup = len(srcs)
    files = sorted(glob.glob(os.path.join(REPO, "tests", "should_ok", "*.er")) + glob.glob(os.path.join(REPO, "tests", "should_err", "*.er"))
                   + glob.glob(os.path.join(REPO, "examples", "*.er")))
    for f in files:
        try:
            txt = open(f, encoding="utf-8").read()
        except Exception:
            continue
        if "import" in txt or len(txt) > 5000:
            continue        # single-module programs only (imports are C19/C20's business)
        for _ in range(2 if quick else 12):
            srcs.append(mutate(txt, rnd))
    # keep programs the real parser accepts
    pr = run_vh(vh, "parse-eq", [{"id": i, "a": s_, "b": s_} for i, s_ in enumerate(srcs)], jobs=12)
    valid = [o["id"] for o in pr if o.get("ok_a")]
    ctx.set("generated", len(srcs))
    ctx.set("syntactically_valid", len(valid))
    levels = (0, 3) if quick else (0, 1, 2, 3)
    ncrash = 0
    for lvl in levels:
        d = scratch(f"c07_{lvl}")
        res = compile_and_run(vh, [srcs[i] for i in valid], d, opt=lvl, jobs=14, run=False)
        for i, rr in zip(valid, res):
            o = rr["compile"]
            origin = "generated" if i < nsoup else "corpus-mutation"
            if "panic" in o or "hang" in o or "abort" in o:
                site = o.get("panic") or o.get("abort") or "hang"
                ncrash += 1
                ctx.violation({"kind": "compiler-crash", "site": crash_class(site)},
                              {"src": srcs[i], "opt": lvl, "origin": origin, "site": site},
                              f"compiler crashed at -o {lvl} on a {origin} program: {site[:160]}")
                continue
            for e in o.get("errors", []):
                text = e["msg"] + " " + e.get("hints", "")
                if e["kind"] == "CompilerSystemError" or ICE.search(text):
                    ncrash += 1
                    m = re.sub(r"\x1b\[[0-9;]*m", "", e["msg"])
                    ctx.violation({"kind": "internal-compiler-error", "site": ice_class(e["kind"], m)},
                                  {"src": srcs[i], "opt": lvl, "origin": origin, "diagnostic": e},
                                  f"internal compiler error at -o {lvl} on a {origin} program: {e['kind']}: {m[:120]}")
                    break
        shutil.rmtree(d, ignore_errors=True)
    ctx.set("evaluations", len(valid) * len(levels))
    ctx.set("distinct_nontrivial", len(valid))
    ctx.set("rule", "distinct syntactically valid programs (generated by ErgSoup.tla with untyped holes, or single-token mutations of corpus files); each compiled at the listed -o levels")
    ctx.set("levels", list(levels))
    ctx.set("crashes_or_ices", ncrash)
    ctx.sample({"program": srcs[valid[0]][len(ERG_PRELUDE):][:400]})
    ctx.sample({"program": srcs[valid[-1]][:300]})


def _strip_parens(t):
    out, depth = [], 0
    for ch in t:
        if ch in "([{":
            depth += 1
        elif ch in ")]}":
            depth = max(0, depth - 1)
        elif depth == 0:
            out.append(ch)
    return "".join(out)


def crash_class(site):
    """Call-site class of a panic: source file of the panic plus the message with
    line numbers, type-variable names and parenthesised operands removed, so that
    one defective call site is one signature whatever types flow through it."""
    if site == "hang":
        return "hang"
    m = re.match(r"(?:/repo/)?(\S+?\.rs):\d+(?::\d+)?:?\s*(.*)", site, re.S)
    f, msg = (m.group(1), m.group(2)) if m else ("?", site)
    msg = _strip_parens(msg.split("\n")[0])
    msg = re.sub(r"\?[A-Za-z0-9_]+", "?T", re.sub(r"\d+", "N", msg))
    return f"{f}: {' '.join(msg.split())[:60]}"


def ice_class(kind, msg):
    """Internal-error constructor that produced the diagnostic."""
    if kind == "CompilerSystemError":
        m = re.search(r"Caused from: ([A-Za-z_0-9:]+?):\d+", msg)
        return "CompileError::compiler_bug from " + (m.group(1) if m else "?")
    if re.search(r"Type .* is not found", msg, re.S):
        return "LowerError::type_not_found"
    return kind + ": " + re.sub(r"\d+", "N", _strip_parens(msg.split("\n")[0]))[:60]


def replay(path):
    d = json.load(open(path))
    vh, _ = build_core()
    stage_erg_path()
    w = scratch("c07_replay")
    o = compile_and_run(vh, [d["src"]], w, opt=d.get("opt", 0), jobs=1, run=False)[0]["compile"]
    shutil.rmtree(w, ignore_errors=True)
    print(json.dumps(o, indent=1)[:3000])
    bad = "panic" in o or "abort" in o or "hang" in o or any(
        e["kind"] == "CompilerSystemError" or ICE.search(e["msg"] + " " + e.get("hints", "")) for e in o.get("errors", []))
    print("reproduced" if bad else "not reproduced")
    return 1 if bad else 0
