"""C25 REPL results stay in step with inputs for any history.

ReplFraming.tla is the wire protocol on a scaled-down size field; TLC verifies for every split
of the byte stream that decoded messages equal sent ones (and refutes the three historical
deviations as model canaries).  ReplCases.tla derives the replay cases: sessions x message
length classes x read-size schedules.  Each case is replayed in all four sender/receiver
combinations of the real Rust MessageStream (through the guarded verif_api) and the real Python
MessageStream (class extracted from src/scripts/repl_server.py), over in-memory sockets that
deliver exactly the scheduled chunk sizes.  Session level: inputs with source/output sizes from
the same classes are evaluated by erg::DummyVM against a real REPL server; reply i must be the
result of input i."""
import ast
import json
from ..common import *

FIELD = 65535


def conc_len(l):
    q, r = divmod(l, 3)
    return q * FIELD + [0, 1, FIELD - 1][r]


def text_for(i, n):
    base = "abcdefghijklmnopqrstuvwxyz"
    s = (base[i % 26:] + base[:i % 26]) * (n // 26 + 1)
    return s[:n]


def load_py_stream():
    src = open(os.path.join(REPO, "src", "scripts", "repl_server.py")).read()
    tree = ast.parse(src)
    keep = [n for n in tree.body if isinstance(n, ast.ClassDef) and n.name in ("INST", "MessageStream")]
    mod = ast.Module(body=keep, type_ignores=[])
    ns = {}
    exec(compile(mod, "repl_server.py(classes)", "exec"), ns)
    return ns["MessageStream"]


class FakeSocket:
    """in-memory socket: recv/send deliver the scheduled number of bytes"""

    def __init__(self, data=b"", sched=("full",)):
        self.data = bytearray(data)
        self.pos = 0
        self.sched = list(sched)
        self.calls = 0
        self.sent = bytearray()

    def _k(self, n):
        c = self.sched[self.calls % len(self.sched)]
        self.calls += 1
        return {"one": 1, "half": max(1, n // 2), "most": max(1, n - 1)}.get(c, n)

    def recv(self, n):
        avail = len(self.data) - self.pos
        if avail <= 0 or n <= 0:
            return b""
        k = self._k(min(n, avail))
        out = bytes(self.data[self.pos:self.pos + k])
        self.pos += k
        return out

    def send(self, b):
        k = self._k(len(b)) if len(b) else 0
        self.sent += b[:k]
        return k

    def sendall(self, b):
        self.sent += b
        return None

    def close(self):
        pass


def py_send(MS, msgs, sched):
    sock = FakeSocket(sched=sched)
    st = MS(sock)
    try:
        for inst, text in msgs:
            st.send_msg(inst, text)
    except Exception as e:  # the server thread would die here
        return bytes(sock.sent), f"{type(e).__name__}: {e}"
    return bytes(sock.sent), None


def py_recv(MS, wire, n, sched):
    sock = FakeSocket(wire, sched)
    st = MS(sock)
    out = []
    try:
        for _ in range(n):
            inst, data = st.recv_msg()
            out.append([inst, data])
    except Exception as e:
        return out, f"{type(e).__name__}: {e}"
    return out, None


def run(ctx):
    vh, erg = build_core()
    quick = ctx.tier == "quick"
    d = scratch("c25")
    # design level
    r_ok = tlc("repl/ReplFraming.tla", cfg="MC_Repl_ok.cfg", workers=4, coverage=False, tag="c25")
    if not r_ok.ok:
        raise ToolError(f"the chunked protocol with exact reads violates {r_ok.invariant_violated} in the model")
    ctx.tlc_stats(r_ok, "ReplFraming chunked/exact (every split)")
    for v, inv in (("bad1", "InStep"), ("bad2", "SenderAlive"), ("bad3", "InStep")):
        rb = tlc("repl/ReplFraming.tla", cfg=f"MC_Repl_{v}.cfg", workers=2, coverage=False, tag="c25b")
        if rb.ok:
            raise ToolError(f"model canary {v}: deviation not refuted by TLC")
    ctx.set("model_canaries_refuted", 3)
    rc = tlc("repl/MC_ReplCases.tla", cfg="MC_ReplCases_q.cfg" if quick else "MC_ReplCases_t.cfg", workers=4, coverage=False, tag="c25c")
    cases = rc.tagged("C")
    ctx.tlc_stats(rc, "ReplCases")
    if len(cases) < 200:
        raise ToolError("too few replay cases")
    MS = load_py_stream()
    # ---- framing level
    send_recs, meta = [], []
    for i, c in enumerate(cases):
        msgs = [[1 + (j % 2) * 5, text_for(j + i, conc_len(l))] for j, l in enumerate(c["lens"])]   # PRINT / EXECUTE
        meta.append(msgs)
        send_recs.append({"id": i, "op": "send", "msgs": msgs, "out": os.path.join(d, f"rs_{i}.bin")})
    res = run_vh(vh, "repl-frame", send_recs, jobs=8, timeout=1200)
    recv_recs = []
    n_checked = 0
    for o in res:
        i = o["id"]
        c, msgs = cases[i], meta[i]
        sizes = [len(m[1]) for m in msgs]
        big = any(s > FIELD for s in sizes)
        if "panic" in o or "error" in o:
            ctx.violation({"kind": "rust-send-failed", "big": big}, {"case": c, "result": o}, f"Rust send failed: {o}")
            continue
        wire = open(os.path.join(d, f"rs_{i}.bin"), "rb").read()
        # Rust -> Python (requests)
        got, err = py_recv(MS, wire, len(msgs), c["sched"])
        n_checked += 1
        if err or got != msgs:
            first = next((k for k in range(len(msgs)) if k >= len(got) or got[k] != msgs[k]), None)
            ctx.violation({"kind": "rust-to-python-desync", "big": big, "short_reads": any(s != "full" for s in c["sched"])},
                          {"sizes": sizes, "sched": c["sched"], "error": err, "first_bad_message": first,
                           "decoded_sizes": [len(g[1]) for g in got]},
                          f"Python MessageStream decoded {[len(g[1]) for g in got]} (err {err}) for Rust frames of sizes {sizes}, schedule {c['sched']}")
        # Python -> Rust (replies) : python sends, rust receives with the schedule
        wire2, err2 = py_send(MS, msgs, c["sched"])
        if err2:
            ctx.violation({"kind": "python-send-crash", "big": big, "error": err2.split(":")[0]},
                          {"sizes": sizes, "error": err2}, f"Python send_msg raised {err2} for sizes {sizes}")
        else:
            p = os.path.join(d, f"ps_{i}.bin")
            open(p, "wb").write(wire2)
            recv_recs.append({"id": i, "op": "recv", "in": p, "n": len(msgs), "sched": c["sched"]})
        # Rust -> Rust
        p3 = os.path.join(d, f"rs_{i}.bin")
        recv_recs.append({"id": 100000 + i, "op": "recv", "in": p3, "n": len(msgs), "sched": c["sched"]})
    res2 = run_vh(vh, "repl-frame", recv_recs, jobs=8, timeout=1200)
    for o in res2:
        i = o["id"] % 100000
        which = "python-to-rust" if o["id"] < 100000 else "rust-to-rust"
        c, msgs = cases[i], meta[i]
        sizes = [len(m[1]) for m in msgs]
        big = any(s > FIELD for s in sizes)
        n_checked += 1
        got = o.get("msgs")
        if "panic" in o or o.get("error") or got != msgs or o.get("left", 0) != 0:
            ctx.violation({"kind": which + "-desync", "big": big, "short_reads": any(s != "full" for s in c["sched"])},
                          {"sizes": sizes, "sched": c["sched"], "result": {k: v for k, v in o.items() if k != "msgs"},
                           "decoded_sizes": [len(g[1]) for g in (got or [])]},
                          f"{which}: decoded {[len(g[1]) for g in (got or [])]} left {o.get('left')} err {o.get('error')} for sizes {sizes}, schedule {c['sched']}")
    ctx.set("framing_replays", n_checked)
    # ---- session level (a real REPL server per session)
    env = erg_env()
    sessions = []
    sizes_list = [[1, 4, 1], [4, 0, 1], [7, 1, 3, 1]] if quick else [[1, 4, 1], [4, 0, 1], [7, 1, 3, 1], [3, 3, 1], [1, 7, 7, 1], [6, 1]]
    for k, ls in enumerate(sizes_list):
        # output-size sessions: input j prints conc_len(l) characters; small inputs in between
        inputs, expect = [], []
        for j, l in enumerate(ls):
            n = conc_len(l)
            if n <= 1:
                inputs.append(f"{j + 2} + {k}")
                expect.append(str(j + 2 + k))
            else:
                inputs.append(f'print! "{chr(97 + j)}" * {n}')
                expect.append(chr(97 + j) * n)
        sessions.append((inputs, expect, "output-size", ls))
        # source-size sessions: a long string literal in the source
        inputs, expect = [], []
        for j, l in enumerate(ls):
            n = conc_len(l)
            if n <= 1:
                inputs.append(f"{j + 3} * 2")
                expect.append(str((j + 3) * 2))
            else:
                inputs.append(f'len("{"q" * n}")')
                expect.append(str(n))
        sessions.append((inputs, expect, "source-size", ls))
    recs = [{"id": i, "inputs": s[0]} for i, s in enumerate(sessions)]
    outs = {}
    for rec in recs:   # one process per session: DummyVM exits the process when the channel breaks
        p = subprocess.run([vh, "repl-session"], input=json.dumps(rec) + "\n", stdout=subprocess.PIPE, stderr=subprocess.PIPE,
                           text=True, timeout=300, env=env, cwd=d)
        lines = [json.loads(l) for l in p.stdout.splitlines() if l.startswith("{")]
        outs[rec["id"]] = (p.returncode, lines, p.stderr[-400:])
    for i, (inputs, expect, kind, ls) in enumerate(sessions):
        rc_, lines, err = outs[i]
        final = [l for l in lines if "results" in l]
        if not final:
            last = max([l["progress"] for l in lines if "progress" in l] or [-1])
            ctx.violation({"kind": "session-died", "session": kind, "big": any(conc_len(l) > FIELD for l in ls)},
                          {"inputs": [x[:60] for x in inputs], "size_classes": ls, "died_at_input": last, "stderr": err},
                          f"REPL session ({kind}, sizes {[conc_len(l) for l in ls]}) died at input {last}: {err.strip().splitlines()[-1] if err.strip() else ''}")
            continue
        results = final[0]["results"]
        for j, (res_j, exp_j) in enumerate(zip(results, expect)):
            got = res_j.get("ok")
            if got is None or got.strip() != exp_j:
                ctx.violation({"kind": "reply-out-of-step", "session": kind, "big": any(conc_len(l) > FIELD for l in ls)},
                              {"inputs": [x[:60] for x in inputs], "size_classes": ls, "index": j,
                               "expected_len": len(exp_j), "observed": (got or str(res_j))[:80], "observed_len": len(got or "")},
                              f"REPL session ({kind}): reply {j} is {(got or str(res_j))[:40]!r} (len {len(got or '')}), expected len {len(exp_j)}")
                break
    ctx.set("sessions", len(sessions))
    ctx.set("canary_rejected", True)
    ctx.set("traces_validated_against_impl", n_checked + len(sessions))
    ctx.set("exhaustive", True)
    ctx.sample({"case": cases[len(cases) // 2], "concrete_sizes": [conc_len(l) for l in cases[len(cases) // 2]["lens"]]})
    ctx.sample({"session_inputs": [x[:50] for x in sessions[0][0]]})
    ctx.assumptions += ["small-scope scaling of the 16-bit size field (3 stands for 65535)",
                        "in-memory sockets deliver exactly the scheduled number of bytes per recv/send call"]
    shutil.rmtree(d, ignore_errors=True)


def replay(path):
    print(open(path).read())
    return 0
