"""C12 Optimisation never changes observable behaviour.

Optimizer.tla states when an unreferenced private definition may be removed without changing
the program's trace of prints and raises (TLC proves the guard sound on all 3-definition
programs and refutes the historical result-type guard as a model canary).  ErgProg.tla supplies
the programs: every short program over literals, arithmetic (incl. raising `//`, `%`), calls,
lists, indexing and `u = print! ..` definitions -- in which most definitions are unused -- and
long simulated programs.  Each program is compiled in-process at -o 0, 1, 2, 3 and executed:
stdout and the uncaught exception class must be the same at every level and equal to the
specification's (CPython as third voter)."""
import json
from ..common import *
from ..ergprog import to_erg, to_py, cpython_vote, shape, conc


def run(ctx):
    vh, erg = build_core()
    quick = ctx.tier == "quick"
    ro = tlc("lang/Optimizer.tla", cfg="Optimizer_sound.cfg", workers=4, coverage=False, tag="c12o")
    if not ro.ok:
        raise ToolError("Optimizer.tla: the sound guard does not preserve behaviour in the model")
    ctx.tlc_stats(ro, "Optimizer (sound guard, all 3-definition programs)")
    rb = tlc("lang/Optimizer.tla", cfg="Optimizer_old.cfg", workers=2, coverage=False, tag="c12b")
    if rb.ok:
        raise ToolError("model canary: the result-type guard was not refuted")
    r = tlc("lang/MC_ErgProg.tla", cfg="MC_ErgProg_unused_q.cfg" if quick else "MC_ErgProg_unused.cfg", workers=8, coverage=False,
            heap="8g", tag="c12", timeout=2400)
    if not r.ok:
        raise ToolError("ErgProg.tla failed")
    ctx.tlc_stats(r, "ErgProg unused-definition programs (exhaustive)")
    cases = r.tagged("G")
    seen = set()
    sims = []
    for k in range(2 if quick else 8):
        rs = tlc("lang/MC_ErgProg.tla", cfg="MC_ErgProg_opt.cfg", workers=2, coverage=False, tag="c12s",
                 simulate=40 if quick else 300, depth=15, seed=ctx.seed * 100 + k, timeout=1200)
        for x in rs.tagged("G"):
            key = canon(x["prog"])
            nontriv = sum(1 for st in x["prog"] if st["k"] not in ("ilit", "flit", "slit"))
            if key not in seen and nontriv >= 3:
                seen.add(key)
                sims.append(x)
    sims.sort(key=lambda x: -len(x["prog"]))
    cases += sims[: (150 if quick else 2000)]
    if len(cases) < 300:
        raise ToolError("too few programs")
    for c in cases:
        c["out"] = [conc(l) for l in c["out"]]
    votes = cpython_vote([c["prog"] for c in cases], DEFAULT_PY)
    srcs = [to_erg(c["prog"]) for c in cases]
    per_level = []
    for lvl in (0, 1, 2, 3):
        d = scratch(f"c12_{lvl}")
        per_level.append(compile_and_run(vh, srcs, d, opt=lvl, jobs=14))
        shutil.rmtree(d, ignore_errors=True)
    judged = disagree = 0
    for i, c in enumerate(cases):
        pout, pstatus = votes[i]
        if pout != c["out"] or pstatus != c["status"]:
            disagree += 1
            continue
        obs = []
        crash = None
        for lvl in (0, 1, 2, 3):
            rr = per_level[lvl][i]
            o = rr["compile"]
            if "panic" in o or "hang" in o or "abort" in o:
                crash = (lvl, o.get("panic") or o.get("abort") or "hang")
                break
            if not o.get("ok"):
                obs.append(("rejected", None))
            else:
                run_ = rr["run"] or {}
                obs.append(((run_.get("out") or "").splitlines(), run_.get("exc") or "ok"))
        if crash:
            ctx.violation({"kind": "compiler-crash", "opt": crash[0], "site": re.sub(r":\d+:", ":", crash[1])[:80]},
                          {"src": srcs[i]}, f"compiler crashed at -o {crash[0]}: {crash[1]}")
            continue
        if all(o[0] == "rejected" for o in obs):
            continue
        judged += 1
        ok_all_equal = all(o == obs[0] for o in obs)
        matches_spec = all(o == (c["out"], c["status"]) for o in obs)
        if not ok_all_equal or not matches_spec:
            unused_kinds = sorted(set(st["k"] + (":" + st["op"] if st["op"] else "") for st in c["prog"] if st["k"] not in ("ilit", "flit", "slit", "print")))
            sig = {"kind": "levels-disagree" if not ok_all_equal else "all-levels-wrong", "templates": unused_kinds[:6],
                   "expected_status": c["status"]}
            ctx.violation(sig, {"src": srcs[i], "expected": [c["out"], c["status"]],
                                "observed_by_level": {str(l): obs[l] for l in range(4)}},
                          f"-o 0..3 give {obs}; specification says {(c['out'], c['status'])}: {shape(c['prog'])}")
    ctx.set("programs", len(cases))
    ctx.set("judged", judged)
    ctx.set("oracle_disagreements", disagree)
    ctx.set("disagreements_checked", len(ctx.violations) + len(ctx.known_hits))
    if disagree > 0.01 * len(cases):
        raise ToolError(f"specification and CPython disagree on {disagree} programs")
    if judged < len(cases) // 3:
        raise ToolError(f"only {judged} of {len(cases)} programs accepted")
    ctx.set("traces_validated_against_impl", judged * 4)
    ctx.set("canary_rejected", True)
    ctx.sample({"erg": to_erg(cases[len(cases) // 3]["prog"], prelude=False), "expected": [cases[len(cases) // 3]["out"], cases[len(cases) // 3]["status"]]})
    ctx.assumptions += ["only programs the compiler accepts at some level are judged"]


def replay(path):
    print(open(path).read())
    return 0
