"""C28 The language server's document copy matches the client's.

DocSync.tla models the client's copy and the LSP position arithmetic (UTF-16 columns, clamping
past the end of a line).  TLC enumerates every transition of the document state graph (documents
of <= 3/4 characters over ASCII, 2-, 3-byte, astral characters and line feeds; every replaced
range; several replacement texts; overshooting columns) and simulates long histories on larger
documents with multi-change notifications.  Each history is replayed through the real language
server (els::Server::bind_fake_client: didOpen + didChange) and VFS.read must equal the client's
copy after every notification; a panic of the server is a violation."""
import json
from ..common import *

CONCRETE = {"a": "a", "e": "é", "j": "あ", "x": "\U0001F600", "n": "\n"}


def conc(seq):
    return "".join(CONCRETE[c] for c in seq)


def to_record(hist, group=1):
    """history of single changes -> notifications of `group` consecutive changes each."""
    notifs, expect = [], []
    for k in range(0, len(hist), group):
        part = hist[k:k + group]
        notifs.append([[h["sl"], h["sc"], h["el"], h["ec"], conc(h["text"])] for h in part])
        expect.append(conc(part[-1]["after"]))
    return {"init": "", "notifs": notifs, "expect": expect}


def classify(h):
    """coarse input class of the last change, for signatures"""
    before_has_astral = False
    return {"astral": "x" in h["after"] or "x" in h["text"],
            "multibyte": any(c in ("e", "j", "x") for c in h["after"])}


def run(ctx):
    vhe = build_els()
    quick = ctx.tier == "quick"
    d = scratch("c28")
    rb = tlc("lsp/MC_DocSync.tla", cfg="MC_DocSync_B.cfg", workers=4, coverage=False, tag="c28b")
    if rb.ok:
        raise ToolError("model canary: the char-counting transcription (layer B) was not refuted by TLC")
    ctx.set("layerB_prefix_model_refuted", True)
    cfg = "MC_DocSync_q.cfg" if quick else "MC_DocSync_t.cfg"
    r = tlc("lsp/MC_DocSync.tla", cfg=cfg, workers=8, coverage=False, tag="c28", heap="6g")
    if not r.ok:
        raise ToolError("DocSync.tla failed")
    ctx.tlc_stats(r, f"DocSync {cfg}")
    trans = r.tagged("D")
    if len(trans) < 3000:
        raise ToolError("too few transitions")
    recs = [to_record(t["hist"]) for t in trans]
    meta = [t["hist"] for t in trans]
    # simulated long histories; also regrouped into multi-change notifications
    sim = tlc("lsp/MC_DocSync.tla", cfg="MC_DocSync_sim.cfg", workers=2, coverage=False, tag="c28s",
              simulate=3 if quick else 60, depth=26, seed=ctx.seed, timeout=1200)
    sims = sim.tagged("S")
    if len(sims) < 20:
        raise ToolError(f"simulation produced only {len(sims)} histories")
    sims = sims[: (150 if quick else 4000)]
    for s in sims:
        for g in (1, 2, 3):
            recs.append(to_record(s["hist"], g))
            meta.append(s["hist"])
    # cwd must be an empty directory: the server analyses every .er file of its workspace
    res = run_vh(vhe, "docsync", recs, args=[d], jobs=8, timeout=900, cwd=d)
    summ = res[-1]["summary"]
    if summ["records"] != len(recs):
        raise ToolError("harness did not replay every history")
    for m in res[:-1]:
        hist = meta[m["i"]]
        step = m.get("step", len(hist) - 1)
        last = hist[min(step, len(hist) - 1)]
        cl = classify(last)
        if m["kind"] == "server-panic":
            sig = {"kind": "server-panic", "site": re.sub(r":\d+", "", m["site"])[:90]}
        else:
            sig = {"kind": m["kind"], "astral": cl["astral"], "multibyte": cl["multibyte"],
                   "overshoot": any(True for _ in [0] if False)}
            sig.pop("overshoot")
        ctx.violation(sig, {"record": recs[m["i"]], "mismatch": m, "reproduce": "bin/check C28 --replay <this file>"},
                      f"{m['kind']} after notification {step}: expected {m.get('expected')!r} observed {m.get('observed', m.get('site'))!r}")
    # canary
    can = json.loads(json.dumps(recs[len(trans) // 2]))
    can["expect"][-1] = can["expect"][-1] + "Z"
    cres = run_vh(vhe, "docsync", [can], args=[d], cwd=d, timeout=300)
    if cres[-1]["summary"]["mismatches"] != 1:
        raise ToolError("canary (corrupted expected text) not rejected")
    ctx.set("canary_rejected", True)
    ctx.set("traces_validated_against_impl", len(recs))
    ctx.set("notifications_sent", summ["notifications"])
    ctx.set("server_restarts_after_panic", summ["restarts"])
    ctx.set("exhaustive", True)
    ctx.sample(recs[len(trans) // 2])
    ctx.sample({"simulated_notifications": len(recs[-1]["notifs"]), "first": recs[-1]["notifs"][:2], "final_text": recs[-1]["expect"][-1]})
    ctx.assumptions += ["line terminator is LF only", "every change carries a range (incremental sync)"]


def replay(path):
    vhe = build_els()
    doc = json.load(open(path))
    d = scratch("c28r")
    print(json.dumps(run_vh(vhe, "docsync", [doc["record"]], args=[d], cwd=d, timeout=300), indent=1))
    return 0
