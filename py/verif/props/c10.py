"""C10 Parsing is deterministic and insensitive to comments and layout.

Layout.tla models a text as physical lines and the layout rewrites the property lists (blank
line, comment line, end-of-line comment, trailing spaces, backslash continuation inside an
expression, redundant parentheses around an operand, and removal of layout lines); Sig(p) -- the
logical lines with the indentation of code lines only -- is invariant.  TLC enumerates every
rewrite sequence up to a bound; each is applied to concrete corpus programs and the real
SimpleParser must return a tree equal (position-insensitively) to the original's, and the same
tree when the same text is parsed twice."""
import glob
import json
import random
from ..common import *

ARITH = {"Plus", "Minus", "Star", "Slash", "FloorDiv", "Mod", "Pow", "DblEq", "NotEq", "Less", "Gre", "LessEq", "GreEq",
         "AndOp", "OrOp"}
OPERAND = {"Symbol", "NatLit", "IntLit"}
OPENERS = {"LParen", "LSqBr", "LBrace"}
CLOSERS = {"RParen", "RSqBr", "RBrace"}


def load_bases(vh):
    files = sorted(glob.glob(os.path.join(REPO, "examples", "*.er")) + glob.glob(os.path.join(REPO, "tests", "should_ok", "*.er")))
    bases = []
    for f in files:
        try:
            txt = open(f, encoding="utf-8").read()
        except Exception:
            continue
        if any(s in txt for s in ('#[', ']#', '"""', "'''", "\t", "\r")) or len(txt) > 6000:
            continue
        bases.append((os.path.relpath(f, REPO), txt))
    # generated operator programs
    gen = ["x = 1\ny = x + 2 * 3\nf a, b =\n    c = a - b\n    c * 2\nprint! f(x, y) + 1\n",
           "a = [1, 2, 3]\nb = a[0] + a[1] * a[2]\nif b > 3 and b < 100, do:\n    print! b - 1\nprint! b == 7 or b != 8\n",
           "g x =\n    h y =\n        y + x * 2\n    h(x) - 1\nz = g 3\nprint! z, z // 2, z % 2, z ** 2\n"]
    for i, g in enumerate(gen):
        bases.append((f"generated/{i}", g))
    # keep only bases the real parser accepts
    res = run_vh(vh, "parse-eq", [{"id": i, "a": t, "b": t} for i, (_, t) in enumerate(bases)], jobs=8)
    ok = []
    for o in res:
        if o.get("ok_a") and o.get("eq") and o.get("det"):
            ok.append(bases[o["id"]])
    return ok


def lex_lines(vh, txt):
    o = run_vh(vh, "lex", [{"src": txt}])[0]
    if not o.get("ok"):
        return None
    return o["toks"]


class Text:
    """Concrete text mirrored on the abstract line structure of Layout.tla."""

    def __init__(self, txt, ncode, toks, rnd):
        lines = txt.split("\n")
        if lines and lines[-1] == "":
            lines.pop()
        self.toks_by_line = {}
        multiline = set()
        for k, c, l1, c1, l2, c2 in toks:
            if l1 != l2 and k not in ("Newline", "EOF", "Indent", "Dedent"):
                for ln in range(l1, l2 + 1):
                    multiline.add(ln)
            self.toks_by_line.setdefault(l1, []).append((k, c, c1, c2))
        code = [i for i, l in enumerate(lines) if l.strip() and not l.strip().startswith("#") and (i + 1) not in multiline]
        if len(code) < ncode:
            raise ValueError("too few code lines")
        # choose ncode segment starts, spread over the file with a random phase
        step = len(code) / ncode
        phase = rnd.random() * step
        starts = sorted(set(code[min(len(code) - 1, int(phase + k * step))] for k in range(ncode)))
        if len(starts) < ncode:
            raise ValueError("segments collapse")
        starts[0] = 0 if 0 not in multiline else starts[0]
        self.segs = []  # [kind, id, [lines], first_line_no(1-based)]
        for k, s in enumerate(starts):
            e = starts[k + 1] if k + 1 < len(starts) else len(lines)
            self.segs.append(["code", k + 1, lines[s:e], s + 1])
        if starts[0] != 0:
            self.segs[0][2] = lines[0:starts[0]] + self.segs[0][2]
            # decorations are applied to the line that was chosen, remember its offset
        self.off = {1: starts[0] if starts[0] != 0 else 0}
        self.skipped = 0
        # Layout.tla's initial text P0L: a comment line before code line 2, a blank line before 3
        if self.off.get(1, 0) == 0 or True:
            l2 = self.segs[1][2][0]
            self.segs.insert(2, ["blank", 0, [""], 0])
            self.segs.insert(1, ["comment", 0, [" " * (len(l2) - len(l2.lstrip(" "))) + "# base"], 0])

    def nth_code(self, n):
        c = 0
        for i, s in enumerate(self.segs):
            if s[0] == "code":
                c += 1
                if c == n:
                    return i
        raise IndexError

    def target(self, n):
        i = self.nth_code(n)
        seg = self.segs[i]
        off = self.off.get(seg[1], 0)
        return seg, off, seg[3] + (off if seg[1] != 1 or True else 0) - (self.off.get(1, 0) if seg[1] == 1 else 0)

    def apply(self, k, site):
        if k == "unline":
            if self.segs[site - 1][0] == "code":
                raise ValueError("model/concrete mismatch")
            del self.segs[site - 1]
            return
        i = self.nth_code(site)
        seg = self.segs[i]
        off = self.off.get(seg[1], 0)
        line = seg[2][off]
        lineno = seg[3] if seg[1] != 1 else seg[3] + off
        ind = len(line) - len(line.lstrip(" "))
        if k == "blank":
            if off:  # layout line goes directly before the chosen code line
                seg[2].insert(off, "")
                self.off[seg[1]] = off + 1
            else:
                self.segs.insert(i, ["blank", 0, [""], 0])
            return
        if k == "comment":
            cl = " " * ind + "# layout"
            if off:
                seg[2].insert(off, cl)
                self.off[seg[1]] = off + 1
            else:
                self.segs.insert(i, ["comment", 0, [cl], 0])
            return
        plain = '"' not in line and "'" not in line and "#" not in line and not line.rstrip().endswith("\\")
        if k == "trail":
            if line.rstrip().endswith("\\"):
                self.skipped += 1
                return
            seg[2][off] = line + "  "
            return
        if k == "eolc":
            if not plain:
                self.skipped += 1
                return
            seg[2][off] = line + "  # c"
            return
        toks = self.toks_by_line.get(lineno, [])
        toks = [t for t in toks if t[0] not in ("Newline", "Indent", "Dedent", "EOF")]
        if not plain or not toks or line != self.orig_line(seg, off):
            self.skipped += 1
            return
        if k == "cont":
            depth = 0
            for j, (tk, tc, c1, c2) in enumerate(toks):
                if tk in OPENERS:
                    depth += 1
                elif tk in CLOSERS:
                    depth -= 1
                elif tk in ARITH and depth == 0 and 0 < j < len(toks) - 1 and toks[j - 1][0] in OPERAND | CLOSERS and toks[j + 1][0] in OPERAND | OPENERS:
                    nxt = toks[j + 1][2]
                    seg[2][off] = line[:c2] + " \\"
                    seg[2].insert(off + 1, " " * (ind + 4) + line[nxt:])
                    self.mark_modified(seg, off)
                    return
            self.skipped += 1
            return
        if k == "paren":
            for j, (tk, tc, c1, c2) in enumerate(toks):
                if tk in OPERAND and 0 < j < len(toks) - 1:
                    pk, nk = toks[j - 1][0], toks[j + 1][0]
                    if pk in ARITH and nk in ARITH | CLOSERS | {"Comma"} and line[c1:c2] == tc:
                        seg[2][off] = line[:c1] + "(" + tc + ")" + line[c2:]
                        self.mark_modified(seg, off)
                        return
            self.skipped += 1
            return
        raise ValueError(k)

    def orig_line(self, seg, off):
        # token columns are only valid on an unmodified line
        return seg[2][off] if (id(seg), off) not in getattr(self, "_mod", set()) else None

    def mark_modified(self, seg, off):
        if not hasattr(self, "_mod"):
            self._mod = set()
        self._mod.add((id(seg), off))

    def render(self):
        out = []
        for s in self.segs:
            out.extend(s[2])
        return "\n".join(out) + "\n"


def run(ctx):
    vh, _ = build_core()
    quick = ctx.tier == "quick"
    cfg = "MC_Layout_q.cfg" if quick else "MC_Layout_t.cfg"
    ncode = 4 if quick else 5
    r = tlc("parse/MC_Layout.tla", cfg=cfg, workers=8, coverage=False, heap="8g", tag="c10", timeout=1800)
    if not r.ok:
        raise ToolError(f"Layout.tla violates {r.invariant_violated}")
    ctx.tlc_stats(r, f"Layout {cfg}")
    seqs = [x for x in r.tagged("L") if x["hist"]]
    kinds = set(h["k"] for x in seqs for h in x["hist"])
    if kinds != {"blank", "comment", "eolc", "trail", "cont", "paren", "unline"}:
        raise ToolError(f"rewrite kinds not all explored: {kinds}")
    bases = load_bases(vh)
    if len(bases) < 20:
        raise ToolError(f"only {len(bases)} base programs parse")
    rnd = random.Random(ctx.seed)
    per_seq = 3 if quick else 8
    recs, meta = [], []
    skipped_sites = 0
    for si, x in enumerate(seqs):
        for _ in range(per_seq):
            name, txt = bases[rnd.randrange(len(bases))]
            key = name
            toks = TOKS.get(key)
            if toks is None:
                toks = lex_lines(vh, txt)
                TOKS[key] = toks if toks is not None else False
            if not toks:
                continue
            try:
                t = Text(txt, ncode, toks, rnd)
                for h in x["hist"]:
                    t.apply(h["k"], h["site"])
            except (ValueError, IndexError):
                continue
            new = t.render()
            skipped_sites += t.skipped
            if new == txt:
                continue
            recs.append({"id": len(meta), "a": txt, "b": new})
            meta.append((name, x["hist"], new))
    if len(recs) < 1000:
        raise ToolError(f"only {len(recs)} rewritten programs")
    res = run_vh(vh, "parse-eq", recs, jobs=12, timeout=3000)
    applied = {}
    for o in res:
        name, hist, new = meta[o["id"]]
        for h in hist:
            applied[h["k"]] = applied.get(h["k"], 0) + 1
        if "panic" in o:
            ctx.violation({"kind": "parser-panic", "site": o["panic"]}, {"base": name, "rewrites": hist, "text": new},
                          f"parser panicked on a layout variant of {name}: {o['panic']}")
        elif not o.get("det"):
            ctx.violation({"kind": "nondeterministic-parse"}, {"base": name}, f"parsing {name} twice gave different trees")
        elif not o.get("ok_b"):
            ctx.violation({"kind": "variant-rejected", "rewrites": sorted(set(h["k"] for h in hist))},
                          {"base": name, "rewrites": hist, "text": new, "reproduce": "bin/check C10 --replay <this file>"},
                          f"layout variant of {name} no longer parses after {[h['k'] for h in hist]}")
        elif not o.get("eq"):
            ctx.violation({"kind": "tree-changed", "rewrites": sorted(set(h["k"] for h in hist))},
                          {"base": name, "rewrites": hist, "text": new, "reproduce": "bin/check C10 --replay <this file>"},
                          f"syntax tree of {name} changed after {[h['k'] for h in hist]}")
    # canary: a semantic change must be detected by the same comparator
    c = run_vh(vh, "parse-eq", [{"id": 0, "a": "x = 1 + 2\n", "b": "x = 1 - 2\n"}])[0]
    if c.get("eq"):
        raise ToolError("canary: different programs compared equal")
    ctx.set("canary_rejected", True)
    ctx.set("traces_validated_against_impl", len(res))
    ctx.set("rewrite_sequences", len(seqs))
    ctx.set("base_programs", len(bases))
    ctx.set("rewrites_applied_by_kind", applied)
    ctx.set("decorations_skipped_no_legal_site", skipped_sites)
    ctx.sample({"base": meta[0][0], "rewrites": meta[0][1], "text": meta[0][2][:400]})
    ctx.sample({"base": meta[len(meta) // 2][0], "rewrites": meta[len(meta) // 2][1]})
    ctx.assumptions += ["base programs: examples/ and tests/should_ok files without block comments, multi-line strings or tabs, plus 3 generated programs",
                        "a comment line is given the indentation of the following code line",
                        "continuation/parenthesis rewrites are applied only at operands of arithmetic/comparison/and/or operators on lines without string literals"]


TOKS = {}


def replay(path):
    vh, _ = build_core()
    doc = json.load(open(path))
    name = doc["base"]
    if name.startswith("generated/"):
        print("generated base; text in replay file")
        return 0
    txt = open(os.path.join(REPO, name)).read()
    print(json.dumps(run_vh(vh, "parse-eq", [{"a": txt, "b": doc["text"]}]), indent=1))
    return 0
