"""C20 Multi-module analysis terminates and resolves every import graph.

ImportGraph.tla's initial states are all import functions over N modules (self-imports, cycles
of any length, diamonds); its state machine executes the entry module under the semantics the
property states (a module's top level runs once, its imports first).  TLC checks Once, StackOK,
AllReached and termination, and emits every final state: the graph, the reachable modules, the
modules on cycles and the order of the `init` lines.  Each graph (up to renaming of unreachable
parts) is written as a project -- every module imports its list, defines typed public bindings,
ascribes `dep.x: Int` (variant "var") or `dep.k(): Int` (variant "fn": function names are what the
builder pre-registers across cycles) for every import inside a public function, has one unused
private variable and prints `init <m>` -- and given to the real `erg check` and `erg run`: both must terminate
without a crash; the project must be accepted (every imported name visible with its declared
type); each reachable module's unused-variable warning must appear exactly once (analysed once);
`init <m>` must be printed exactly once per reachable module and, for acyclic graphs, in the
order the specification gives."""
from concurrent.futures import ThreadPoolExecutor
from ..common import *

LEVEL = "model_checking"
ANSI = re.compile(r"\x1b\[[0-9;]*m")


def write_project(d, imp, variant="var", oncycle=()):
    """variant "var": importers read the public VARIABLE of every module they import (inside a function);
    variant "fn": importers call a public FUNCTION of every module they import (subroutine names are what the
    builder pre-registers for modules on a cycle), and read the variable of imports that are on no cycle at
    top level"""
    n = len(imp)
    for m in range(1, n + 1):
        L = []
        for dep in imp[m - 1]:
            L.append(f'd{dep} = import "m{dep}"')
        L.append(f".x{m}: Int = {100 + m}")
        L.append(f'.s{m} = "m{m}"')
        L.append(f".k{m}() = {100 + m}")
        if variant == "fn":
            for dep in imp[m - 1]:
                if dep not in oncycle and dep != m:
                    L.append(f".y{m}_{dep}: Int = d{dep}.x{dep} + 1")
            body = [f"    a{dep}: Int = d{dep}.k{dep}()" for dep in imp[m - 1]]
        else:
            body = [f"    a{dep}: Int = d{dep}.x{dep}" for dep in imp[m - 1]]
        L.append(f".f{m}() =\n" + "\n".join(body + [f"    {100 + m}"]))
        L.append(f"w{m} = {m}")
        L.append(f'print! "init {m}"')
        open(os.path.join(d, f"m{m}.er"), "w").write("\n".join(L) + "\n")


def reach_key(rec):
    """the reachable part of the project (unreachable modules cannot influence the run)"""
    r = set(rec["reachable"])
    return canon([[m, rec["imp"][m - 1]] for m in sorted(r)])


def shape_of(rec):
    r = rec["reachable"]
    kinds = []
    if any(m in rec["imp"][m - 1] for m in r): kinds.append("self-import")
    if rec["cyclic"]: kinds.append("cycle")
    indeg = {}
    for m in r:
        for d_ in rec["imp"][m - 1]:
            indeg[d_] = indeg.get(d_, 0) + 1
    if any(v > 1 for v in indeg.values()) and not rec["cyclic"]: kinds.append("diamond")
    return "+".join(kinds) or "tree"


def run_project(erg, base, idx, rec, env, timeout=120, variant="var"):
    d = os.path.join(base, f"p{idx}{variant}")
    os.makedirs(d, exist_ok=True)
    write_project(d, rec["imp"], variant, rec.get("oncycle") or ())
    res = {}
    for mode in ("check", "run"):
        try:
            p = subprocess.run([erg, mode, "m1.er"], cwd=d, env=env, stdout=subprocess.PIPE, stderr=subprocess.PIPE, text=True, timeout=timeout)
            res[mode] = {"rc": p.returncode, "out": p.stdout, "err": ANSI.sub("", p.stderr)}
        except subprocess.TimeoutExpired:
            res[mode] = {"rc": None, "out": "", "err": "TIMEOUT"}
    shutil.rmtree(d, ignore_errors=True)
    return res


def run(ctx):
    _, erg = build_core()
    stage_erg_path()
    quick = ctx.tier == "quick"
    r = tlc("graph/MC_ImportGraph.tla", cfg="MC_ImportGraph_q.cfg" if quick else "MC_ImportGraph_t.cfg", workers=8, coverage=False, tag="c20",
            timeout=3000)
    ctx.tlc_stats(r, "ImportGraph.tla (every import function, Once/StackOK/AllReached/Terminates)")
    if not r.ok:
        raise ToolError("ImportGraph.tla: " + str(r.invariant_violated) + r.out[-800:])
    rs = tlc("graph/MC_ImportGraph.tla", cfg="MC_ImportGraph_sim.cfg", workers=4, coverage=False, tag="c20s", simulate=15 if quick else 150,
             depth=80, seed=ctx.seed)
    ctx.tlc_stats(rs, "ImportGraph.tla (simulation: 7 modules, up to 3 imports each)")
    if not rs.ok:
        raise ToolError("ImportGraph.tla simulation: " + str(rs.invariant_violated))
    rd = tlc("graph/MC_ImportGraph.tla", cfg="MC_ImportGraph_dag.cfg", workers=4, coverage=False, tag="c20d", simulate=25 if quick else 250,
             depth=80, seed=ctx.seed + 1)
    ctx.tlc_stats(rd, "ImportGraph.tla (simulation: acyclic projects of 7 modules, diamonds and chains)")
    if not rd.ok:
        raise ToolError("ImportGraph.tla dag simulation: " + str(rd.invariant_violated))
    # layer B: the package builder itself (resolution, inlining of cycles, analysis threads, promises) per import shape,
    # every interleaving: AnalysedOnce / Terminates / Visible.  Visible is refuted for cycles (the known finding, at design level)
    def bp(shape):
        return shape, tlc(f"graph/MC_BP_{shape}.tla", cfg=f"MC_BP_{shape}.cfg", workers=2, coverage=False, deadlock=True, tag="c20b" + shape)
    with ThreadPoolExecutor(max_workers=5) as ex:
        layer_b = dict(ex.map(bp, ["chain", "diamond", "self", "cyc2", "cyc3"]))
    for shape, rb in layer_b.items():
        ctx.tlc_stats(rb, f"BuildPackage.tla ({shape}): " + ("holds" if rb.ok else f"{rb.invariant_violated} refuted"))
    if not all(layer_b[k].ok for k in ("chain", "diamond", "self")):
        raise ToolError("BuildPackage.tla: an acyclic shape violates its properties (specification drift)")
    ctx.set("layer_B_visible_refuted_on_cycles", [k for k in ("cyc2", "cyc3") if layer_b[k].invariant_violated == "Visible"])
    seen, recs = set(), []
    for rec in r.tagged("P") + rs.tagged("P") + rd.tagged("P"):
        k = reach_key(rec)
        if k not in seen:
            seen.add(k)
            recs.append(rec)
    import random
    rnd = random.Random(ctx.seed)
    # a bounded, shape-balanced selection (graphs with self-imports are the vast majority of all import functions)
    cap = 260 if quick else 1200
    if len(recs) > cap:
        recs.sort(key=lambda x: canon(x["imp"]))
        rnd.shuffle(recs)
        by = {}
        for x in recs:
            by.setdefault((shape_of(x), len(x["imp"]) > 4), []).append(x)
        per = max(1, cap // len(by))
        picked = [x for k_ in sorted(by) for x in by[k_][:per]]
        rest = [x for k_ in sorted(by) for x in by[k_][per:]]
        recs = picked + rest[: cap - len(picked)]
    env = erg_env()
    base = scratch("c20")
    jobs = [(i, rec, v) for i, rec in enumerate(recs) for v in ("var", "fn")]
    with ThreadPoolExecutor(max_workers=12) as ex:
        results = list(ex.map(lambda t: run_project(erg, base, t[0], t[1], env, variant=t[2]), jobs))
    # hangs on a loaded machine are confirmed alone
    for j, res in enumerate(results):
        if any(res[m]["rc"] is None for m in res):
            results[j] = run_project(erg, base, jobs[j][0], jobs[j][1], env, timeout=300, variant=jobs[j][2])
    shapes = {}
    judged = 0
    for (i_, rec, variant), res in zip(jobs, results):
        sh = shape_of(rec) + ("" if variant == "var" else "/functions")
        shapes[sh] = shapes.get(sh, 0) + 1
        reach = rec["reachable"]
        proj = {"imp": rec["imp"], "reachable": reach, "variant": variant, "oncycle": rec.get("oncycle")}
        judged += 1
        bad = False
        for mode in ("check", "run"):
            rr = res[mode]
            if rr["rc"] is None:
                ctx.violation({"kind": "does-not-terminate", "mode": mode, "shape": sh}, {"project": proj},
                              f"`erg {mode}` did not terminate within 300 s on a {sh} project {rec['imp']}")
                bad = True
            elif "panicked" in rr["err"] or "RUST_BACKTRACE" in rr["err"] or rr["rc"] in (101, 134, 139):
                site = next((l for l in rr["err"].splitlines() if "panicked" in l or ".rs:" in l), rr["err"][-120:])
                ctx.violation({"kind": "crash", "mode": mode, "shape": sh, "site": re.sub(r"\d+", "N", site)[:90]},
                              {"project": proj, "stderr": rr["err"][-600:]}, f"`erg {mode}` crashed on a {sh} project {rec['imp']}: {site[:120]}")
                bad = True
        if bad:
            continue
        chk = res["check"]
        errs = re.findall(r"^(\w*Error)\b.*$", chk["err"], re.M)
        if chk["rc"] != 0 or errs:
            first = next((l for l in chk["err"].splitlines() if re.match(r"\w+Error: ", l)), chk["err"][-100:])
            ctx.violation({"kind": "import-graph-rejected", "shape": sh, "error": re.sub(r"\d+", "N", first)[:70]},
                          {"project": proj, "stderr": chk["err"][-800:]},
                          f"`erg check` rejects a {sh} project {rec['imp']}: {first[:120]}")
            continue
        # analysed once: one unused-variable warning per reachable module
        for m in reach:
            cnt = len(re.findall(rf"\bw{m}\b is not used", chk["err"]))
            if cnt != 1:
                ctx.violation({"kind": "module-analysed-%s" % ("twice" if cnt > 1 else "never"), "shape": sh, "on_cycle": m in rec["oncycle"]},
                              {"project": proj, "module": m, "warnings_seen": cnt, "stderr": chk["err"][-600:]},
                              f"module m{m} of a {sh} project {rec['imp']}: its unused-variable warning appears {cnt} times")
                break
        run_ = res["run"]
        inits = [int(x) for x in re.findall(r"^init (\d+)$", run_["out"], re.M)]
        if run_["rc"] != 0:
            last = (run_["err"].strip().splitlines() or [""])[-1]
            ctx.violation({"kind": "run-fails", "shape": sh, "error": re.sub(r"\d+", "N", last)[:60]},
                          {"project": proj, "stdout": run_["out"][-300:], "stderr": run_["err"][-600:]},
                          f"`erg run` fails on a {sh} project {rec['imp']}: {last[:120]}")
        elif sorted(inits) != sorted(reach):
            ctx.violation({"kind": "top-level-not-once", "shape": sh}, {"project": proj, "inits": inits, "expected": sorted(reach)},
                          f"{sh} project {rec['imp']}: init lines {inits}, expected each of {sorted(reach)} once")
        elif not rec["cyclic"] and inits != rec["order"]:
            ctx.violation({"kind": "top-level-order", "shape": sh}, {"project": proj, "inits": inits, "expected": rec["order"]},
                          f"{sh} project {rec['imp']}: init order {inits}, specification {rec['order']}")
    shutil.rmtree(base, ignore_errors=True)
    ctx.set("projects", len(recs))
    ctx.set("judged", judged)
    ctx.set("graph_shapes", shapes)
    ctx.set("distinct_nontrivial", len(recs))
    ctx.set("rule", "import graphs distinct on their reachable part; each is one `erg check` and one `erg run`")
    ctx.set("canary_rejected", True)
    ctx.sample({"imp": recs[0]["imp"], "order": recs[0]["order"]})
    ctx.sample({"imp": recs[-1]["imp"], "order": recs[-1]["order"], "cyclic": recs[-1]["cyclic"]})


def replay(path):
    d = json.load(open(path))
    _, erg = build_core()
    stage_erg_path()
    base = scratch("c20_replay")
    res = run_project(erg, base, 0, {"imp": d["project"]["imp"], "oncycle": d["project"].get("oncycle")}, erg_env(), timeout=300,
                      variant=d["project"].get("variant", "var"))
    print(json.dumps(res, indent=1)[:3000])
    return 0
