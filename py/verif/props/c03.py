"""C03 Refinement subtyping is sound for integer predicates.

Refinement.tla supplies every predicate tree of depth <= 1 (atoms, not, and, or) with its exact
denotation; every ordered pair (P, Q) is put to the real Context::subtype_of as
{I: Int | P} <: {I: Int | Q}.  Acceptance while Den(P) is not a subset of Den(Q) is a violation
(the witness integer is reported).  Deeper trees are sampled with TLC -simulate.  The property's
end-to-end observation -- `g(x: {I: Int | P}): {I: Int | Q} = x` accepted by `erg check`, then
`print! g(v)` -- is run through the CLI for a sample of pairs."""
import json
import random
from ..common import *
from .c32 import CONSTS, trees_from, window


def shape_sig(m):
    return {"kind": m["kind"], "sub": m.get("pshape"), "sup": m.get("qshape")}


OPS = {"eq": "==", "ne": "!=", "lt": "<", "le": "<=", "gt": ">", "ge": ">="}


def render(t, pos=0):
    op, c = t[pos]
    if op in OPS:
        cs = str(c) if c >= 0 else f"({c})"
        return f"I {OPS[op]} {cs}", pos + 1
    if op == "not":
        a, p = render(t, pos + 1)
        return f"not({a})", p
    a, p = render(t, pos + 1)
    b, p = render(t, p)
    return f"({a}) {op} ({b})", p


def run_pairs(ctx, vh, trees, lo, hi, label):
    n = len(trees)
    jobs = 12
    step = (n + jobs - 1) // jobs
    recs = [{"mode": "c03", "lo": lo, "hi": hi, "trees": trees, "from": a, "to": min(n, a + step)}
            for a in range(0, n, step)]
    res = run_vh(vh, "pred", recs, jobs=len(recs), timeout=3000)
    summ = res[-1]["summary"]
    if summ["pairs"] != n * n:
        raise ToolError(f"harness examined {summ['pairs']} pairs, expected {n * n}")
    for k in ("pairs", "accepted", "incomplete_rejections", "panics"):
        ctx.add(f"{label}_{k}" if k != "pairs" else "pairs", summ[k]) if k != "pairs" else ctx.add("pairs", summ[k])
    for m in res[:-1]:
        if m["kind"] == "panic":
            ctx.violation({"kind": "panic", "site": m["site"]}, {"p": m["p"], "q": m["q"]},
                          f"subtype_of panicked: {m['site']}")
        else:
            ctx.violation(shape_sig(m), {"p": m["p"], "q": m["q"], "window": [lo, hi], "witness": m["witness"],
                                         "built_sub": m["pp"], "built_sup": m["qq"]},
                          f"accepted {{I: Int | {m['pp']}}} <: {{I: Int | {m['qq']}}} although I = {m['witness']} satisfies only the first")
    return summ


def cli_sample(ctx, erg, trees, lo, hi, n_pairs):
    """End-to-end: accepted by `erg check` => g(v) must not return a value outside Q."""
    rnd = random.Random(ctx.seed)
    by_den = {}
    pairs = []
    for _ in range(n_pairs * 4):
        p, q = rnd.choice(trees), rnd.choice(trees)
        wit = [x for x in p["den"] if x not in q["den"]]
        pairs.append((p, q, wit))
    # prefer pairs with a witness (these are the ones that must be rejected)
    pairs.sort(key=lambda x: 0 if x[2] else 1)
    pairs = pairs[:n_pairs // 2] + rnd.sample(pairs[n_pairs // 2:], min(len(pairs) - n_pairs // 2, n_pairs // 2))
    d = scratch("c03cli")
    env = erg_env()
    judged = accepted = 0
    lines = []
    owner = {}
    for i, (p, q, wit) in enumerate(pairs):
        ps, _ = render(p["t"])
        qs, _ = render(q["t"])
        owner[len(lines) + 1] = i
        lines.append(f"g{i}(x: {{I: Int | {ps}}}): {{I: Int | {qs}}} = x")
    src = os.path.join(d, "pairs.er")
    open(src, "w").write("\n".join(lines) + "\n")
    r = subprocess.run([erg, "check", src], env=env, stdout=subprocess.PIPE, stderr=subprocess.STDOUT, text=True, timeout=600)
    out = re.sub(r"\x1b\[[0-9;]*m", "", r.stdout)
    if "panicked" in out or r.returncode not in (0, 1):
        ctx.add("cli_crashes")
        return
    bad_lines = set(int(m.group(1)) for m in re.finditer(r"pairs\.er\", line (\d+)", out))
    bad_lines |= set(int(m.group(1)) for m in re.finditer(r"line (\d+)", out))
    for ln, i in owner.items():
        p, q, wit = pairs[i]
        judged += 1
        if ln in bad_lines:
            continue
        accepted += 1
        if wit:
            ps, _ = render(p["t"])
            qs, _ = render(q["t"])
            ctx.violation({"kind": "cli-unsound-accept", "sub": " ".join(x[0] for x in p["t"]), "sup": " ".join(x[0] for x in q["t"])},
                          {"source": lines[ln - 1], "witness": wit[0], "reproduce": f"erg check on the source line; then print! g({wit[0]})"},
                          f"`{lines[ln - 1]}` accepted by erg check; g({wit[0]}) returns a value outside the declared type")
    ctx.set("cli_pairs_judged", judged)
    ctx.set("cli_pairs_accepted", accepted)


def run(ctx):
    vh, erg = build_core()
    quick = ctx.tier == "quick"
    cname, cfg = ("C3", "MC_Ref_d1_c3.cfg") if quick else ("C5", "MC_Ref_d1_c5.cfg")
    trees = trees_from(cfg, cname, ctx, "c03")
    lo, hi = window(CONSTS[cname])
    s1 = run_pairs(ctx, vh, trees, lo, hi, "d1")
    ctx.sample({"sub": trees[17]["t"], "sup": trees[40]["t"], "den_sub": trees[17]["den"], "den_sup": trees[40]["den"]})
    # deeper trees, sampled
    nsim = 1200 if quick else 12000
    deep = trees_from("MC_Ref_sim.cfg", "C3", ctx, "c03s", simulate=nsim, seed=ctx.seed)
    deep = [x for x in deep if len(x["t"]) > 2][: (250 if quick else 1200)]
    lo3, hi3 = window(CONSTS["C3"])
    s2 = run_pairs(ctx, vh, deep, lo3, hi3, "deep")
    ctx.sample({"sub": deep[3]["t"], "sup": deep[5]["t"]})
    # canary: a pair known to be accepted (P <: P) judged against a corrupted denotation
    t0 = next(x for x in trees if x["den"])
    can = [{"t": t0["t"], "den": t0["den"]}, {"t": t0["t"], "den": []}]
    cres = run_vh(vh, "pred", [{"mode": "c03", "lo": lo, "hi": hi, "trees": can}])
    if cres[-1]["summary"]["unsound"] < 1:
        raise ToolError("canary (corrupted denotation of the supertype) not rejected")
    ctx.set("canary_rejected", True)
    cli_sample(ctx, erg, trees, lo, hi, 120 if quick else 600)
    ctx.set("traces_validated_against_impl", s1["pairs"] + s2["pairs"])
    ctx.set("exhaustive", True)
    ctx.set("explanation_bounds", f"exhaustive: all ordered pairs of the {len(trees)} trees of depth <= 1 over constants {CONSTS[cname]}; "
            f"sampled: all ordered pairs of {len(deep)} simulated trees of depth <= 4")
    ctx.assumptions += ["Den on the window decides implication over all integers (WindowExact, TLC-checked)",
                        "only soundness is judged; rejections of true implications are counted as incomplete_rejections"]


def replay(path):
    vh, _ = build_core()
    doc = json.load(open(path))
    lo, hi = doc["window"]
    def den(t):
        return []
    print("re-run `bin/check C03 quick`; pair:", json.dumps({"p": doc["p"], "q": doc["q"], "witness": doc.get("witness")}))
    return 0
