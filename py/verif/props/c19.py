"""C19 Compilation output is deterministic and schedule-independent.

The projects are ImportGraph.tla's (every import function over 3 modules, simulated projects of
7): the specification's build outcome is a function of the import function alone -- its state
machine has no scheduling choice -- so every schedule of the real, parallel build must produce
that one outcome.  Each project is compiled repeatedly by the real `erg compile`:
  * the default (parallel) build under different thread timings -- the hook
    `erg_common::spawn::verif_jitter` (cfg(erg_verif), env ERG_VERIF_JITTER=<seed>) delays every
    analysis thread at its start and before its end by a seed- and module-dependent amount -- and
    pinned to one core / all cores;
  * a build of the same sources with the `parallel` feature off (harness_seq/ergseq).
Bytes 16.. of the entry module's .pyc (everything but the header with the timestamp) and the
sorted, location-normalised diagnostics must be identical across all runs of a project."""
from concurrent.futures import ThreadPoolExecutor
from ..common import *
from .c20 import write_project, reach_key, shape_of, ANSI

LEVEL = "model_checking"


def build_seq():
    env = dict(os.environ)
    env["CARGO_NET_OFFLINE"] = "true"
    env.pop("RUSTFLAGS", None)
    t0 = time.time()
    r = subprocess.run(["cargo", "build", "--offline", "-q", "-p", "ergseq"], cwd=os.path.join(VERIF, "harness_seq"), env=env,
                       stdout=subprocess.PIPE, stderr=subprocess.STDOUT, text=True, timeout=3000)
    if r.returncode != 0:
        raise ToolError("cargo build of the sequential erg failed:\n" + r.stdout[-3000:])
    log(f"[build] ergseq ok in {time.time() - t0:.1f}s")
    return os.path.join(BUILD, "target-seq", "debug", "erg-seq")


def diag_key(stderr):
    """diagnostics as a sorted multiset of (severity, code, file, line, message line)"""
    txt = ANSI.sub("", stderr)
    out = []
    blocks = re.split(r"^(?=(?:Error|Warning)\[#\d+\]: )", txt, flags=re.M)
    for b in blocks:
        m = re.match(r"(Error|Warning)\[#(\d+)\]: File ([^,\n]+), line (\d+)", b)
        if not m:
            continue
        msg = next((l.strip() for l in b.splitlines()[1:] if re.match(r"\s*\w+(Error|Warning): ", l)), "")
        out.append((m.group(1), m.group(2), os.path.basename(m.group(3)), int(m.group(4)), msg[:120]))
    return sorted(out)


def compile_once(binary, d, env, extra_env, prefix=()):
    e = dict(env)
    e.update(extra_env)
    for f in glob.glob(os.path.join(d, "*.pyc")) + glob.glob(os.path.join(d, "__pycache__", "*")):
        try:
            os.remove(f)
        except OSError:
            pass
    try:
        p = subprocess.run(list(prefix) + [binary, "compile", "m1.er"], cwd=d, env=e, stdout=subprocess.PIPE, stderr=subprocess.PIPE, text=True, timeout=180)
    except subprocess.TimeoutExpired:
        return {"rc": None, "pyc": None, "diag": None, "err": "TIMEOUT"}
    pyc = None
    f = os.path.join(d, "m1.pyc")
    if os.path.exists(f):
        pyc = hashlib.sha1(open(f, "rb").read()[16:]).hexdigest()
    return {"rc": p.returncode, "pyc": pyc, "diag": diag_key(p.stderr), "err": ANSI.sub("", p.stderr)[-400:]}


import glob  # noqa: E402


def run(ctx):
    _, erg = build_core()
    stage_erg_path()
    quick = ctx.tier == "quick"
    erg_seq = build_seq()
    r = tlc("graph/MC_ImportGraph.tla", cfg="MC_ImportGraph_q.cfg", workers=8, coverage=False, tag="c19")
    ctx.tlc_stats(r, "ImportGraph.tla (every import function over 3 modules)")
    if not r.ok:
        raise ToolError("ImportGraph.tla: " + str(r.invariant_violated))
    rs = tlc("graph/MC_ImportGraph.tla", cfg="MC_ImportGraph_sim.cfg", workers=4, coverage=False, tag="c19s", simulate=15 if quick else 100,
             depth=80, seed=ctx.seed + 5)
    rd = tlc("graph/MC_ImportGraph.tla", cfg="MC_ImportGraph_dag.cfg", workers=4, coverage=False, tag="c19d", simulate=40 if quick else 300,
             depth=80, seed=ctx.seed + 6)
    ctx.tlc_stats(rd, "ImportGraph.tla (simulation: acyclic projects of 7 modules)")
    if not rd.ok or not rs.ok:
        raise ToolError("ImportGraph.tla simulation failed")
    seen, recs = set(), []
    for rec in rd.tagged("P") + rs.tagged("P") + r.tagged("P"):
        k = reach_key(rec)
        if k not in seen and len(rec["reachable"]) >= 2:
            seen.add(k)
            recs.append(rec)
    import random
    rnd = random.Random(ctx.seed)
    big = [x for x in recs if len(x["imp"]) > 3]
    small = [x for x in recs if len(x["imp"]) <= 3]
    acyc = [x for x in big if not x["cyclic"]]
    cyc = [x for x in big if x["cyclic"]]
    recs = acyc[: (60 if quick else 200)] + cyc[: (15 if quick else 50)] + rnd.sample(small, min(len(small), 25 if quick else 100))
    env = erg_env()
    base = scratch("c19")
    seeds = [1, 2, 3] if quick else [1, 2, 3, 4, 5, 6, 7, 8]

    def one(t):
        i, rec = t
        d = os.path.join(base, f"p{i}")
        os.makedirs(d, exist_ok=True)
        write_project(d, rec["imp"], "fn", rec.get("oncycle") or ())
        runs = [("parallel", compile_once(erg, d, env, {}))]
        for s_ in seeds:
            runs.append((f"parallel jitter={s_}", compile_once(erg, d, env, {"ERG_VERIF_JITTER": str(s_)})))
        runs.append(("parallel one core", compile_once(erg, d, env, {"ERG_VERIF_JITTER": "9"}, prefix=("taskset", "-c", "0"))))
        runs.append(("sequential", compile_once(erg_seq, d, env, {})))
        shutil.rmtree(d, ignore_errors=True)
        return runs
    with ThreadPoolExecutor(max_workers=6) as ex:
        allruns = list(ex.map(one, enumerate(recs)))
    shutil.rmtree(base, ignore_errors=True)
    compiled = 0
    for rec, runs in zip(recs, allruns):
        sh = shape_of(rec)
        proj = {"imp": rec["imp"]}
        ref_name, ref = runs[0]
        for name, rr in runs:
            if rr["rc"] is None:
                ctx.violation({"kind": "compile-does-not-terminate", "run": name.split(" jitter")[0], "shape": sh}, {"project": proj, "run": name},
                              f"`erg compile` ({name}) did not terminate on a {sh} project {rec['imp']}")
        if ref["pyc"]:
            compiled += 1
        for name, rr in runs[1:]:
            if rr["rc"] is None or ref["rc"] is None:
                continue
            kind = "sequential" if name == "sequential" else "schedule"
            if rr["pyc"] != ref["pyc"]:
                ctx.violation({"kind": f"bytecode-differs-by-{kind}", "shape": sh, "one_side_failed": (rr["pyc"] is None) != (ref["pyc"] is None)},
                              {"project": proj, "runs": [ref_name, name], "pyc": [ref["pyc"], rr["pyc"]], "stderr": [ref["err"], rr["err"]]},
                              f"{sh} project {rec['imp']}: bytecode of `{name}` differs from `{ref_name}`")
            elif rr["diag"] != ref["diag"]:
                ctx.violation({"kind": f"diagnostics-differ-by-{kind}", "shape": sh},
                              {"project": proj, "runs": [ref_name, name], "diag": [ref["diag"], rr["diag"]]},
                              f"{sh} project {rec['imp']}: diagnostics of `{name}` differ from `{ref_name}`")
    ctx.set("projects", len(recs))
    ctx.set("runs_per_project", len(seeds) + 3)
    ctx.set("projects_compiled", compiled)
    ctx.set("distinct_nontrivial", len(recs))
    ctx.set("rule", "import graphs distinct on their reachable part with at least two modules; each compiled under every listed schedule")
    # canary: the jitter hook is live (a jittered build takes measurably longer than an unjittered one on a chain of 3 modules)
    d = scratch("c19canary")
    write_project(d, [[2], [3], []])
    t0 = time.time(); compile_once(erg, d, env, {}); t1 = time.time()
    compile_once(erg, d, env, {"ERG_VERIF_JITTER": "12345", "ERG_VERIF_JITTER_MS": "400"}); t2 = time.time()
    shutil.rmtree(d, ignore_errors=True)
    ctx.set("jitter_hook_live", (t2 - t1) - (t1 - t0) > 0.1)
    ctx.set("canary_rejected", (t2 - t1) - (t1 - t0) > 0.1)
    if not (t2 - t1) - (t1 - t0) > 0.1:
        raise ToolError(f"canary: the jitter hook had no effect ({t1 - t0:.2f}s vs {t2 - t1:.2f}s)")
    ctx.sample({"imp": recs[0]["imp"], "runs": [n for n, _ in allruns[0]]})


def replay(path):
    print(open(path).read())
    return 0
