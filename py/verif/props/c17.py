"""C17 Transpiled Python behaves like the compiled bytecode.

ErgProg.tla supplies programs whose string literals contain quotes, backslashes, braces and
apostrophes besides the rest of the fragment.  Each program is transpiled in-process
(`erg transpile`); whenever a script is produced (not declined with a diagnostic) it must be
valid Python for the target interpreter, and running it must print what the compiled bytecode of
the same program prints and end with the same exception class / exit status; the specification
(ErgProg.tla) is the third voter and names the side that is wrong."""
import json
from ..common import *
from ..ergprog import to_erg, cpython_vote, shape
from .c01 import gen_programs


def run(ctx):
    vh, erg = build_core()
    quick = ctx.tier == "quick"
    grid, sims = gen_programs(ctx, True, "c17")
    import random
    rnd = random.Random(ctx.seed)
    # string-heavy programs first
    def strness(c):
        return sum(1 for st in c["prog"] if st["k"] in ("slit", "scat", "interp"))
    sims.sort(key=lambda c: -strness(c))
    cases = sims[: (200 if quick else 250)] + rnd.sample(grid, min(len(grid), 150 if quick else 1200))
    # plus one program per string literal of the palette, printed directly and interpolated
    for s in ["ab", "x y", "q\"t", "b\\s", "{z}", "e'f", "a\\\"b", "tab\\t", "\\", "\"", "end\\", "\u00e9", "\u3042\u65e5", "\U0001F600", "a\U0001F600\"b"]:
        cases.append({"prog": [{"k": "slit", "op": "", "a": 0, "b": 0, "c": 0, "s": s}, {"k": "print", "op": "", "a": 1, "b": 0, "c": 0, "s": ""}],
                      "out": [s], "status": "ok"})
    votes = cpython_vote([c["prog"] for c in cases], DEFAULT_PY)
    srcs = [to_erg(c["prog"], prelude="used") for c in cases]
    d1, d2 = scratch("c17b"), scratch("c17t")
    byte = compile_and_run(vh, srcs, d1, jobs=14)
    trans = transpile_and_run(vh, srcs, d2, jobs=14)
    judged = declined = disagree = 0
    for i, c in enumerate(cases):
        t = trans[i]["transpile"]
        if "not yet implemented" in (t.get("panic") or "") or "not implemented" in (t.get("panic") or ""):
            declined += 1        # the transpiler declines with todo!()
            ctx.add("declined_by_todo_panic")
            continue
        if "panic" in t or "hang" in t or "abort" in t:
            site = t.get("panic") or t.get("abort") or "hang"
            ctx.violation({"kind": "transpiler-crash", "site": re.sub(r":\d+:", ":", site)[:80]}, {"src": srcs[i]},
                          f"transpiler crashed: {site}")
            continue
        if not t.get("ok"):
            declined += 1
            continue
        if not byte[i]["compile"].get("ok"):
            continue
        judged += 1
        tr = trans[i]["run"] or {}
        br = byte[i]["run"] or {}
        tobs = ((tr.get("out") or "").splitlines(), tr.get("exc") or "ok", tr.get("exit"))
        bobs = ((br.get("out") or "").splitlines(), br.get("exc") or "ok", br.get("exit"))
        strs = sorted(set(ch for st in c["prog"] if st["k"] in ("slit", "interp") for ch in st["s"] if ch in "\"\\{}'"))
        if tr.get("exc") == "InvalidPython":
            ctx.violation({"kind": "invalid-python", "special_chars": strs},
                          {"src": srcs[i], "script": trans[i]["path"], "error": tr.get("exc_msg")},
                          f"transpiled script is not valid Python: {tr.get('exc_msg')} ({shape(c['prog'])})")
            continue
        if tobs != bobs:
            spec_ok = votes[i] == (c["out"], c["status"])
            wrong = "transpiled" if spec_ok and (bobs[0], bobs[1]) == (c["out"], c["status"]) else ("bytecode" if spec_ok and (tobs[0], tobs[1]) == (c["out"], c["status"]) else "unknown")
            templ = sorted(set(s_ for s_ in shape(c["prog"]) if not s_.startswith(("ilit", "print"))))
            ctx.violation({"kind": "script-differs-from-bytecode", "wrong_side": wrong, "special_chars": strs, "templates": templ[:5],
                           "exception": tobs[1] if tobs[1] != bobs[1] else None},
                          {"src": srcs[i], "transpiled": tobs, "bytecode": bobs, "spec": [c["out"], c["status"]], "message": tr.get("exc_msg")},
                          f"transpiled script gives {tobs[:2]}, bytecode gives {bobs[:2]} (spec {(c['out'], c['status'])}): {shape(c['prog'])}")
    ctx.set("programs", len(cases))
    ctx.set("transpiled_and_judged", judged)
    ctx.set("declined_by_transpiler", declined)
    ctx.set("disagreements_checked", len(ctx.violations) + len(ctx.known_hits))
    if judged < len(cases) // 3:
        raise ToolError(f"only {judged} of {len(cases)} programs were transpiled")
    ctx.set("canary_rejected", True)
    ctx.sample({"erg": to_erg(cases[0]["prog"], prelude=False), "expected": [cases[0]["out"], cases[0]["status"]]})
    shutil.rmtree(d1, ignore_errors=True)
    shutil.rmtree(d2, ignore_errors=True)


LEVEL = "translation_validation"


def replay(path):
    print(open(path).read())
    return 0
