"""Executed under a target interpreter with the staged Erg runtime library on sys.path:
replays RuntimeOps.tla behaviours on the real runtime classes.
stdin: JSON list of behaviours {start, steps:[{k, op, other:{cls,v}, res:{cls,v}}]};
stdout: JSON list of per-behaviour verdict lists."""
import json
import operator
import sys

sys.path.insert(0, sys.argv[1])
from _erg_nat import Nat, NatMut          # noqa: E402
from _erg_int import Int, IntMut          # noqa: E402
from _erg_float import Float, FloatMut    # noqa: E402
from _erg_bool import Bool                # noqa: E402

OPS = {"+": operator.add, "-": operator.sub, "*": operator.mul, "//": operator.floordiv, "%": operator.mod,
       "**": operator.pow, "/": operator.truediv, "==": operator.eq, "!=": operator.ne, "<": operator.lt,
       "<=": operator.le, ">": operator.gt, ">=": operator.ge}
CLS = {"Nat": Nat, "Int": Int, "Float": Float, "Bool": Bool, "int": int, "float": float, "bool": bool,
       "Nat!": NatMut, "Int!": IntMut, "Float!": FloatMut}


def parse(v):
    if v in ("True", "False"):
        return v == "True"
    return float(v) if ("." in v or "e" in v or "inf" in v) else int(v)


def make(o):
    p = parse(o["v"])
    c = o["cls"]
    if c in ("Nat!", "Int!", "Float!"):
        return CLS[c](CLS[c[:-1]](p))
    return CLS[c](p)


def plain(x):
    """the built-in value a wrapper or cell stands for"""
    if isinstance(x, (NatMut, IntMut, FloatMut)):
        x = x.value
    if isinstance(x, bool) or type(x).__name__ == "Bool":
        return bool(x)
    if isinstance(x, float):
        return float(x)
    if isinstance(x, int):
        return int(x)
    return x


def kind(x):
    return "bool" if isinstance(x, bool) else "float" if isinstance(x, float) else "int" if isinstance(x, int) else type(x).__name__


def in_class(x, c):
    """x (any Python object) is a value of the Erg class c, and if it is a wrapper it is a consistent one"""
    cell = isinstance(x, (NatMut, IntMut, FloatMut))
    if c.endswith("!"):
        if not cell:
            return False
        want = {"Nat!": NatMut, "Int!": IntMut, "Float!": FloatMut}[c]
        if not isinstance(x, want):
            return False
        return in_class(x.value, c[:-1])
    if cell:
        return False
    p = plain(x)
    if isinstance(x, Nat) and not isinstance(p, bool) and p < 0:
        return False            # no Nat instance is ever negative
    if c == "Bool": return isinstance(p, bool)
    if c == "Nat": return isinstance(p, int) and p >= 0
    if c == "Int": return isinstance(p, int)
    if c == "Float": return isinstance(p, (int, float))
    return False


def same(a, b):
    if kind(a) != kind(b) and not (kind(a) in ("int", "bool") and kind(b) in ("int", "bool")):
        return False
    if a != a and b != b:
        return True
    return a == b


def step(cur, st):
    k, op = st["k"], st["op"]
    other = make(st["other"]) if k in ("binr", "binl", "zde", "cell", "cellbin", "decbelow") else None
    if k == "binr" or k == "zde":
        real = lambda: OPS[op](cur, other)
        ref = lambda: OPS[op](plain(cur), plain(other))
    elif k == "binl":
        real = lambda: OPS[op](other, cur)
        ref = lambda: OPS[op](plain(other), plain(cur))
    elif k == "un":
        f = {"neg": operator.neg, "pos": operator.pos, "abs": abs}[op]
        real = lambda: f(cur)
        ref = lambda: f(plain(cur))
    elif k == "meth":
        real = lambda: getattr(cur, op)()
        ref = lambda: plain(cur) + (1 if op == "succ" else -1)
    elif k == "mutate":
        real = lambda: cur.mutate()
        ref = lambda: plain(cur)
    elif k == "cell":
        def real():
            getattr(cur, op)(other)
            return cur
        ref = lambda: plain(cur) + plain(other) if op == "inc" else plain(cur) - plain(other)
    elif k == "cellbin":
        real = lambda: OPS[op](cur, other)
        ref = lambda: OPS[op](plain(cur), plain(other))
    else:
        raise ValueError(k)
    try:
        want = ("ok", ref())
    except Exception as e:        # noqa
        want = ("exc", type(e).__name__)
    try:
        got = ("ok", real())
    except Exception as e:        # noqa
        got = ("exc", type(e).__name__ + ": " + str(e)[:80])
    return want, got


def main():
    out = []
    for beh in json.load(sys.stdin):
        verdicts = []
        try:
            cur = make(beh["start"])
        except Exception as e:   # noqa
            out.append([{"i": 0, "bad": "construct", "detail": "%s: %s" % (type(e).__name__, e)}])
            continue
        for i, st in enumerate(beh["steps"], 1):
            v = {"i": i}
            if st["k"] == "decbelow":
                # the runtime may refuse (raise) or saturate, but the Nat! cell must still hold a Nat
                try:
                    getattr(cur, st["op"])(make(st["other"]))
                except Exception:      # noqa
                    pass
                if not in_class(cur, "Nat!"):
                    v.update(bad="class", want="Nat!", got=repr(plain(cur))[:60], got_class=type(cur).__name__)
                    verdicts.append(v)
                    break
                verdicts.append(v)
                continue
            want, got = step(cur, st)
            if want[0] == "exc":
                if got[0] != "exc" or not got[1].startswith(want[1]):
                    v.update(bad="exception", want=want[1], got=repr(got[1])[:80])
                verdicts.append(v)
                if "bad" in v:
                    break
                continue              # object unchanged
            if got[0] == "exc":
                v.update(bad="raises", want=repr(want[1])[:60], got=got[1])
                verdicts.append(v)
                break
            res = got[1]
            pv = plain(res)
            if not same(pv, want[1]):
                v.update(bad="value", want=repr(want[1])[:60], got=repr(pv)[:60], got_class=type(res).__name__)
            elif st["k"] != "zde" and not in_class(res, st["res"]["cls"]):
                v.update(bad="class", want=st["res"]["cls"], got=repr(pv)[:60], got_class=type(res).__name__)
            elif st.get("w") and type(res) in (int, float, bool):
                # an operator the wrapper class overrides returned a plain built-in value
                v.update(bad="unwrapped", want=st["res"]["cls"], got=repr(pv)[:60], got_class=type(res).__name__)
            else:
                # the specification's value (third voter)
                sv = parse(st["res"]["v"])
                if not same(sv, want[1]):
                    v.update(oracle="spec-differs", spec=st["res"]["v"], python=repr(want[1])[:60])
            verdicts.append(v)
            if "bad" in v:
                break
            # a plain built-in result is re-wrapped in its declared class, as the generated code does
            # (an expression of static type T is evaluated as T(<expression>))
            decl = st["res"]["cls"]
            cur = res if decl.endswith("!") or isinstance(res, CLS[decl]) else CLS[decl](plain(res))
        out.append(verdicts)
    json.dump(out, sys.stdout)


if __name__ == "__main__":
    main()
