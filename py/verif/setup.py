"""bin/setup: build the framework offline from files on disk."""
import sys

from .common import ToolError, build_core, build_els, log, stage_erg_path


def main():
    try:
        build_core()
        build_els()
        stage_erg_path()
        # the erg binary with the `parallel` feature off (C19)
        from .props.c19 import build_seq
        build_seq()
    except ToolError as e:
        log(f"setup failed: {e}")
        sys.exit(2)
    log("setup ok")


if __name__ == "__main__":
    main()
