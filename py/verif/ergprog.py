"""Concrete renderings of ErgProg.tla programs: Erg source, and an independent Python
translation (not erg's transpiler) used as the third voter."""
import json
import subprocess

INT = {"m7": -7, "m2": -2, "m1": -1, "0": 0, "1": 1, "2": 2, "7": 7, "i31m": 2**31 - 1, "i31": 2**31, "mi31": -2**31,
       "i32": 2**32, "i63m": 2**63 - 1, "i63": 2**63, "i64": 2**64, "mi63": -2**63}

ERG_PRELUDE = """double x = x * 2
fact 0 = 1
fact(n: Int): Int = n * fact(n - 1)
inc = (x: Int) -> x + 1
addd x, y := 10 = x + y
"""

PY_PRELUDE = """def double(x): return x * 2
def fact(n): return 1 if n == 0 else n * fact(n - 1)
inc = lambda x: x + 1
def addd(x, y=10): return x + y
"""


PLACEHOLDERS = {"U+E9": "\u00e9", "U+3042": "\u3042", "U+1F600": "\U0001F600"}


def conc(s):
    """concretise the placeholders TLA+ strings use for non-ASCII characters"""
    for k, v in PLACEHOLDERS.items():
        s = s.replace(k, v)
    return s


def erg_str(s):
    s = conc(s)
    return '"' + s.replace("\\", "\\\\").replace('"', '\\"') + '"'


def flt(m, e):
    return repr(m / (2 ** e))


PRELUDE_PARTS = {"double": "double x = x * 2\n", "fact": "fact 0 = 1\nfact(n: Int): Int = n * fact(n - 1)\n",
                 "inc": "inc = (x: Int) -> x + 1\n", "addd": "addd x, y := 10 = x + y\n"}


def to_erg(prog, prelude=True):
    if prelude == "used":
        used = set(st["op"].replace("addd2", "addd") for st in prog if st["k"] == "call")
        L = ["".join(v for k, v in PRELUDE_PARTS.items() if k in used)]
    else:
        L = [ERG_PRELUDE] if prelude else []
    for n, st in enumerate(prog, 1):
        k, op, a, b, c, s = st["k"], st["op"], st["a"], st["b"], st["c"], st["s"]
        v = f"v{n}"
        if k == "ilit":
            L.append(f"{v} = {INT[s]}")
        elif k == "flit":
            L.append(f"{v} = {flt(a, b)}")
        elif k == "slit":
            L.append(f"{v} = {erg_str(s)}")
        elif k in ("bin", "cmp", "scat"):
            L.append(f"{v} = v{a} {op} v{b}")
        elif k == "interp":
            L.append(f'{v} = "\\{{v{a}}}' + erg_str(s)[1:])
        elif k == "uprint":
            L.append(f"u{n} = print! {erg_str(s)}")
        elif k == "print":
            L.append(f"print! v{a}")
        elif k == "ifp":
            L.append(f"if! v{c}:\n    do!: print! v{a}\n    do!: print! v{b}")
        elif k == "call":
            f = {"double": "double(v%d)", "inc": "inc(v%d)", "addd": "addd(v%d)", "addd2": "addd(v%d, 5)", "fact": "fact(v%d)"}[op]
            L.append(f"{v} = " + f % a)
        elif k == "loop":
            L.append(f"acc{n} = !0\nfor! 0..<v{a}, i =>\n    acc{n}.update! s -> s + i\n{v} = acc{n} + 0")
        elif k in ("wloop", "wloople"):
            rel = "<" if k == "wloop" else "<="
            L.append(f"cnt{n} = !0\nwhile! do! cnt{n} {rel} v{a}, do!:\n    cnt{n}.inc!()\n{v} = cnt{n} + 0")
        elif k == "ublock":
            L.append(f"u{n} =\n    w{n} = v{a} // v{b}\n    2")
        elif k == "ublockp":
            L.append(f"u{n} =\n    print! {erg_str(s)}\n    2")
        elif k == "lmk":
            L.append(f"{v} = [v{a}, v{b}]")
        elif k == "lcat":
            L.append(f"{v} = v{a} + [v{b}]")
        elif k == "llen":
            L.append(f"{v} = len(v{a})")
        elif k == "lget":
            L.append(f"{v} = v{a}[{b}]")
        elif k == "assert":
            L.append(f"assert v{a}")
        elif k == "tpat":
            L.append(f"({v}, w{n}) = (v{a}, v{b})")
        else:
            raise ValueError(k)
    return "\n".join(L) + "\n"


def to_py(prog):
    L = [PY_PRELUDE]
    for n, st in enumerate(prog, 1):
        k, op, a, b, c, s = st["k"], st["op"], st["a"], st["b"], st["c"], st["s"]
        v = f"v{n}"
        if k == "ilit":
            L.append(f"{v} = {INT[s]}")
        elif k == "flit":
            L.append(f"{v} = {flt(a, b)}")
        elif k == "slit":
            L.append(f"{v} = {conc(s)!r}")
        elif k in ("bin", "cmp", "scat"):
            L.append(f"{v} = v{a} {op} v{b}")
        elif k == "interp":
            L.append(f"{v} = str(v{a}) + {conc(s)!r}")
        elif k == "uprint":
            L.append(f"u{n} = print({conc(s)!r})")
        elif k == "print":
            L.append(f"print(v{a})")
        elif k == "ifp":
            L.append(f"print(v{a} if v{c} else v{b})")
        elif k == "call":
            f = {"double": "double(v%d)", "inc": "inc(v%d)", "addd": "addd(v%d)", "addd2": "addd(v%d, 5)", "fact": "fact(v%d)"}[op]
            L.append(f"{v} = " + f % a)
        elif k == "loop":
            L.append(f"{v} = 0\nfor i in range(v{a}):\n    {v} = {v} + i")
        elif k in ("wloop", "wloople"):
            rel = "<" if k == "wloop" else "<="
            L.append(f"{v} = 0\nwhile {v} {rel} v{a}:\n    {v} += 1")
        elif k == "ublock":
            L.append(f"w{n} = v{a} // v{b}\nu{n} = 2")
        elif k == "ublockp":
            L.append(f"print({conc(s)!r})\nu{n} = 2")
        elif k == "lmk":
            L.append(f"{v} = [v{a}, v{b}]")
        elif k == "lcat":
            L.append(f"{v} = v{a} + [v{b}]")
        elif k == "llen":
            L.append(f"{v} = len(v{a})")
        elif k == "lget":
            L.append(f"{v} = v{a}[{b}]")
        elif k == "assert":
            L.append(f"assert v{a}")
        elif k == "tpat":
            L.append(f"({v}, w{n}) = (v{a}, v{b})")
    return "\n".join(L) + "\n"


def cpython_vote(progs, py):
    """run the independent Python translations in one interpreter; returns [(out_lines, status)]"""
    driver = r'''
import sys, io, json
res = []
for src in json.load(sys.stdin):
    buf = io.StringIO(); old = sys.stdout; sys.stdout = buf
    status = "ok"
    try:
        exec(src, {"__name__": "__main__"})
    except BaseException as e:
        status = type(e).__name__
    finally:
        sys.stdout = old
    res.append([buf.getvalue().splitlines(), status])
json.dump(res, sys.stdout)
'''
    p = subprocess.run([py, "-c", driver], input=json.dumps([to_py(x) for x in progs]), stdout=subprocess.PIPE,
                       stderr=subprocess.PIPE, text=True, timeout=900)
    if p.returncode != 0:
        raise RuntimeError("CPython voter failed: " + p.stderr[-500:])
    return [(r[0], r[1]) for r in json.loads(p.stdout)]


def shape(prog):
    return [st["k"] + (":" + st["op"] if st["op"] else "") for st in prog]
