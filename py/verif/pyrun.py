"""Executed under a target interpreter: runs many .pyc files in one process.
stdin: JSON lines {"id": .., "pyc": path}; stdout: JSON lines {"id", "out", "exc", "exc_msg", "exit", "tb_file"}.
Each module is executed in a fresh namespace with stdout captured; exceptions are data."""
import io
import json
import marshal
import sys
import traceback


def main():
    real_out = sys.stdout
    for line in sys.stdin:
        line = line.strip()
        if not line:
            continue
        rec = json.loads(line)
        res = {"id": rec["id"], "out": "", "exc": None, "exc_msg": None, "exit": None, "tb_file": None}
        buf = io.StringIO()
        try:
            if "py_src" in rec:
                # a transpiled script: it must first of all be valid Python for this interpreter
                try:
                    code = compile(open(rec["py_src"], encoding="utf-8").read(), rec["py_src"], "exec")
                except (SyntaxError, ValueError) as e:
                    res["exc"] = "InvalidPython"
                    res["exc_msg"] = ("%s: %s" % (type(e).__name__, e))[:300]
                    real_out.write(json.dumps(res) + "\n")
                    real_out.flush()
                    continue
            else:
                data = open(rec["pyc"], "rb").read()
                code = marshal.loads(data[16:])
            sys.stdout = buf
            ns = {"__name__": "__main__", "__file__": rec.get("pyc") or rec.get("py_src")}
            try:
                exec(code, ns)
            finally:
                sys.stdout = real_out
                if rec.get("dump"):
                    # the values the module's bindings hold: class name (and element classes) plus repr
                    g = {}
                    for k, v in list(ns.items()):
                        if k.startswith("__") or callable(v) or type(v).__name__ == "module":
                            continue
                        try:
                            ent = {"cls": type(v).__name__, "mro": [c.__name__ for c in type(v).__mro__][:6], "repr": repr(v)[:200]}
                            if isinstance(v, (list, tuple)):
                                ent["elems"] = [[type(x).__name__, repr(x)[:60]] for x in v][:16]
                            g[k] = ent
                        except Exception as e2:
                            g[k] = {"cls": type(v).__name__, "repr": "<repr failed: %s>" % type(e2).__name__}
                    res["globals"] = g
        except SystemExit as e:
            res["exit"] = e.code if isinstance(e.code, int) or e.code is None else str(e.code)
        except BaseException as e:  # noqa
            res["exc"] = type(e).__name__
            res["exc_msg"] = str(e)[:300]
            # innermost frame, without touching line tables (erg's may be unusable)
            tb = e.__traceback__
            while tb is not None and tb.tb_next is not None:
                tb = tb.tb_next
            if tb is not None:
                res["tb_file"] = tb.tb_frame.f_code.co_filename
                res["tb_func"] = tb.tb_frame.f_code.co_name
        res["out"] = buf.getvalue()
        real_out.write(json.dumps(res) + "\n")
        real_out.flush()


if __name__ == "__main__":
    main()
