import importlib
import sys

from .common import run_check

LEVELS = {}


def main():
    if len(sys.argv) < 2:
        print("usage: bin/check <ID> [quick|thorough]", file=sys.stderr)
        sys.exit(2)
    prop = sys.argv[1].upper()
    try:
        mod = importlib.import_module(f".props.{prop.lower()}", __package__)
    except ImportError as e:
        print(f"no check for {prop}: {e}", file=sys.stderr)
        sys.exit(2)
    if len(sys.argv) > 3 and sys.argv[2] == "--replay":
        sys.exit(mod.replay(sys.argv[3]))
    level = getattr(mod, "LEVEL", "model_checking")
    run_check(prop, level, mod.run)


if __name__ == "__main__":
    main()
