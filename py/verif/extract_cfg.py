"""Run under a *target* interpreter: turns .pyc files into the JSON constant of CodeObjCFG.tla.
usage: python extract_cfg.py out.json < lines of {"id":..,"pyc":path,"nlines":n}"""
import dis
import json
import marshal
import sys
import types

HASJ = set(dis.hasjrel) | set(dis.hasjabs)
UNCOND = {"JUMP_FORWARD", "JUMP_ABSOLUTE", "JUMP_BACKWARD", "JUMP_BACKWARD_NO_INTERRUPT", "RETURN_VALUE", "RAISE_VARARGS",
          "RERAISE", "JUMP_NO_INTERRUPT"}


def walk(co):
    yield co
    for k in co.co_consts:
        if isinstance(k, types.CodeType):
            yield from walk(k)


def one(co, prog_id, nlines):
    ins = list(dis.get_instructions(co))
    off2idx = {i.offset: n + 1 for n, i in enumerate(ins)}
    handlers = []
    if sys.version_info >= (3, 11):
        try:
            handlers = dis._parse_exception_table(co)
        except Exception:
            handlers = []
    rows = []
    ok = True
    problems = []
    for n, i in enumerate(ins):
        name = i.opname
        hasjump = i.opcode in HASJ
        hasfall = name not in UNCOND
        try:
            a_ = i.arg if i.opcode >= dis.HAVE_ARGUMENT else None
            if name == "EXTENDED_ARG":
                fall = jump = 0
            elif sys.version_info >= (3, 8):
                fall = dis.stack_effect(i.opcode, a_, jump=False) if hasfall else 0
                jump = dis.stack_effect(i.opcode, a_, jump=True) if hasjump else 0
            else:
                # 3.7: stack_effect has no `jump` argument; it reports the maximum over both edges
                fall = dis.stack_effect(i.opcode, a_) if hasfall else 0
                jump = dis.stack_effect(i.opcode, a_) if hasjump else 0
        except Exception as e:
            ok = False
            problems.append("stack_effect %s: %s" % (name, e))
            fall = jump = 0
        target = 0
        if hasjump:
            target = off2idx.get(i.argval, 0)
            if target == 0:
                ok = False
                problems.append("jump of %s at %d lands at %r: not an instruction boundary" % (name, i.offset, i.argval))
                hasjump = False
            elif target >= 2 and ins[target - 2].opname == "EXTENDED_ARG" and ins[target - 2].arg != 0:
                # EXTENDED_ARG and the instruction it prefixes are one unit: entering it behind a non-zero prefix
                # executes the instruction with a truncated argument
                ok = False
                problems.append("jump of %s at %d lands at %r behind the EXTENDED_ARG prefix of %s" % (name, i.offset, i.argval, ins[target - 1].opname))
                hasjump = False
        # operand index ranges
        a = i.arg
        if i.opcode in dis.hasconst and not (0 <= a < len(co.co_consts)):
            ok = False; problems.append("const index %d out of range at %d" % (a, i.offset))
        if i.opcode in dis.hasname:
            idx = a >> 1 if (name == "LOAD_GLOBAL" and sys.version_info >= (3, 11)) else a
            if not (0 <= idx < len(co.co_names)):
                ok = False; problems.append("name index %d out of range at %d (%s)" % (idx, i.offset, name))
        if i.opcode in dis.haslocal and not (0 <= a < len(co.co_varnames)):
            ok = False; problems.append("local index %d out of range at %d" % (a, i.offset))
        if i.opcode in dis.hasfree:
            nfree = len(co.co_cellvars) + len(co.co_freevars)
            base = len(co.co_varnames) if sys.version_info >= (3, 11) else 0
            if not (0 <= a < nfree + base):
                ok = False; problems.append("free index %d out of range at %d" % (a, i.offset))
        line = i.starts_line if i.starts_line is not None else None
        rows.append({"op": name, "hasfall": bool(hasfall), "fall": fall, "hasjump": bool(hasjump), "jump": jump, "target": target,
                     "line": -1, "hashandler": False, "htarget": 0, "hdepth": 0, "hpush": 0, "_off": i.offset, "_line": line})
    # line of each instruction = line of the nearest preceding line start
    cur = None
    for r in rows:
        if r["_line"] is not None:
            cur = r["_line"]
        r["line"] = cur if isinstance(cur, int) else -1
    for h in handlers:
        for r in rows:
            if h.start <= r["_off"] < h.end:
                t = off2idx.get(h.target, 0)
                if t:
                    r["hashandler"], r["htarget"], r["hdepth"], r["hpush"] = True, t, h.depth, (2 if h.lasti else 1)
                else:
                    ok = False; problems.append("handler target %d is not an instruction boundary" % h.target)
    for r in rows:
        del r["_off"], r["_line"]
    return {"prog": prog_id, "name": co.co_name, "stacksize": co.co_stacksize, "nlines": nlines, "indices_ok": ok,
            "problems": problems[:5], "ins": rows}


def main():
    out = sys.argv[1]
    codes, errors = [], []
    for line in sys.stdin:
        line = line.strip()
        if not line:
            continue
        rec = json.loads(line)
        try:
            data = open(rec["pyc"], "rb").read()
            top = marshal.loads(data[16:])
            for co in walk(top):
                codes.append(one(co, rec["id"], rec["nlines"]))
        except Exception as e:
            errors.append({"id": rec["id"], "error": "%s: %s" % (type(e).__name__, e)})
    json.dump({"codes": codes, "precise": sys.version_info >= (3, 8), "excl": {"InCode": [0], "NoUnderflow": [0], "WithinDeclared": [0], "LineInSource": [0], "IndicesInRange": [0]}}, open(out, "w"))
    print(json.dumps({"ncodes": len(codes), "nins": sum(len(c["ins"]) for c in codes), "errors": errors}))


if __name__ == "__main__":
    main()
