"""Regenerates MANIFEST.json from the table below (run: python3 -m py.verif.manifest_gen)."""
import json
import os
import subprocess

from .common import VERIF

CHECKS = {}


def check(pid, category, text, note, technique, design_ref):
    CHECKS[pid] = dict(category=category, text=text, note=note, technique=technique, design_ref=design_ref)


check("C21", "model_checking",
      "TLC explores the reference graph specification ModuleGraphRef.tla exhaustively (4 paths, <=6 operations, one history per abstract graph and registration order); every transition is replayed on the real ModuleGraph and all public queries are compared with the specification after the step; 40-step simulated histories over 6 paths are replayed with every step observed; TSort.tla enumerates every graph over 3-4 names for the real tsort; the implementation-shaped ModuleGraphImpl.tla is checked to refine the reference. In the other direction (trace validation), operation sequences chosen outside the model (9 paths, 40-60 operations, 60/800 runs) are applied to the real ModuleGraph, every event is recorded with its outcome and all public queries, and TLC validates the recorded trace against ModuleGraphRef through TraceGraph.tla (acceptance by postcondition; a corrupted-field canary must be rejected at exactly the corrupted event).",
      "Trusted: TLC, the reference semantics of ModuleGraphRef.tla (rename judged only onto fresh names; a refused inc_ref may register the referrer), the vh replayer's projection of the public API.",
      "TLA+ reference spec + TLC state-graph enumeration, spec->impl replay with full query comparison; impl->spec trace validation (TraceGraph.tla, TLC postcondition); layer-B refinement check",
      "DESIGN.md section 6 C21")

check("C31", "model_checking",
      "PathNorm.tla builds every path of <= 6 (quick) / 8 (thorough) components over {., .., a, b}, absolute and relative (174 762 paths), with its reference canonical form; TLC separately checks that the canonical form characterises 'resolves to the same file from every working directory' and that the transcription of cheap_canonicalize_path agrees with it. Every path is normalised by the real NormalizedPathBuf::new; idempotence and 'identified only if same file' are judged on the whole space.",
      "Trusted: TLC; the lexical (symlink-free) reading of paths; only the direction 'identified => same file' is judged.",
      "TLA+ spec enumerated exhaustively by TLC, spec->impl replay of every state",
      "DESIGN.md section 6 C31")

check("C32", "model_checking",
      "Refinement.tla derives every integer-predicate tree (atoms ==,!=,<,<=,>,>= with constants; not/and/or) to depth 2 and gives its denotation on a window that TLC shows to be exact; each tree is rebuilt through the real Predicate constructors (eq/ne/ge/gt/le/lt/and/or/invert) and the resulting data structure, evaluated point by point, must denote the same set. Deeper trees are sampled with TLC -simulate.",
      "Trusted: TLC; the 30-line structural evaluator of Predicate values in harness/vh/src/pred.rs; window exactness (TLC-checked invariant WindowExact).",
      "TLA+ derivation machine enumerated by TLC, spec->impl replay comparing denotations",
      "DESIGN.md section 6 C03/C32")

check("C03", "model_checking",
      "All ordered pairs (P, Q) of the predicate trees of depth <= 1 derived by Refinement.tla (468 k pairs quick, 3.4 M thorough) and all pairs of sampled deeper trees are put to the real Context::subtype_of as {I: Int | P} <: {I: Int | Q}; acceptance while Den(P) is not a subset of Den(Q) is a violation with a witness integer. A sample of pairs is also checked end to end through `erg check` of `g(x: {I: Int | P}): {I: Int | Q} = x`.",
      "Trusted: TLC; the window-exactness lemma; only soundness (not completeness) of the subtype test is judged.",
      "TLA+ denotational spec enumerated by TLC, spec->impl replay on Context::subtype_of and erg check",
      "DESIGN.md section 6 C03/C32")

check("C11", "model_checking",
      "Precedence.tla derives token sequences (operands, all 28 binary operators, prefix + - ~, member access, parentheses, numeric literals) and gives each its reference tree by precedence climbing from the documented table; TLC enumerates a op1 b op2 c for every ordered operator pair, every prefix/binary combination, and all sequences with <= 3 binary operators over one representative per level; deeper sequences are sampled. Each sequence is rendered with three spacing styles and parsed by the real lexer+parser in-process; the AST's S-expression must equal the reference tree. A layer-B reading (prefix operator takes the whole expression) classifies one historical defect.",
      "Trusted: TLC; the reference parser in Precedence.tla; the S-expression printer in harness/vh/src/parse.rs.",
      "TLA+ derivation machine + reference precedence-climbing operator, exhaustive TLC enumeration, spec->impl replay with tree equality",
      "DESIGN.md section 6 C11")

check("C10", "model_checking",
      "Layout.tla models a text as physical lines with the layout rewrites the property lists and checks that the logical-line signature is invariant; TLC enumerates every rewrite sequence of length <= 3 (quick) / 4 (thorough) including removal of layout lines. Each sequence is applied to corpus programs (examples/, tests/should_ok) and generated programs; the real parser must accept the variant, return a tree with the same position-free rendering, and return the same tree when a text is parsed twice.",
      "Trusted: TLC; the concretisation of abstract rewrites in py/verif/props/c10.py (sites chosen from the real lexer's tokens); comparison through the AST's Display rendering because the crate's == compares locations in a few node kinds.",
      "TLA+ rewrite system enumerated by TLC, spec->impl replay on the real parser with tree comparison",
      "DESIGN.md section 6 C10")

check("C22", "model_checking",
      "Effects.tla builds every nesting path of block-opening constructs (function/procedure definitions, variable blocks, do-blocks, function/procedure lambdas) of depth <= 3 (quick) / 4 (thorough), places one of three effect kinds directly or inside a record field, and states when the effect is allowed (nearest enclosing subroutine is a procedure or none); a layer-B transcription of the checker's look-back is compared with it by TLC. All 1554 (quick) / 9330 (thorough) paths are rendered as programs and checked by the real compiler in-process: a HasEffect diagnostic must be present exactly when the specification forbids the effect.",
      "Trusted: TLC; the renderer in py/verif/props/c22.py; programs with diagnostics other than HasEffect are excluded (none at present).",
      "TLA+ state machine over block-kind stacks enumerated by TLC, spec->impl replay through the in-process checker",
      "DESIGN.md section 6 C22")

check("C23", "model_checking",
      "Ownership.tla enumerates every statement sequence of length <= 4 (quick) / 5 (thorough) over mutable variables (definition, rebinding, container construction, passing for mutable/reference/immutable parameters, operand use, bare access) in module, function and procedure scope, plus simulated sequences of length 10, and says whether a statement mentions a variable moved earlier. Each sequence is rendered as a program and checked in-process: MoveError present exactly when the specification says so; probes cover moving a lambda parameter.",
      "Trusted: TLC; the renderer in py/verif/props/c23.py; generic parameters are not judged.",
      "TLA+ state machine over alive/moved sets enumerated by TLC, spec->impl replay through the in-process checker",
      "DESIGN.md section 6 C23")

check("C28", "model_checking",
      "DocSync.tla models the client's copy of a document over ASCII, 2-byte, 3-byte, astral characters and line feeds, the LSP position arithmetic (UTF-16 columns, clamping past the end of a line) and incremental changes. TLC enumerates every transition of the document state graph (documents <= 3 characters quick / 4 thorough, every range, six replacement texts, overshooting columns) and simulates 25-step histories on documents up to 30 characters, also regrouped into multi-change notifications. Every history is replayed through the real language server (didOpen + didChange via els::Server::bind_fake_client) and VFS.read must equal the client's copy after each notification; a server panic is a violation. A transcription of the pre-fix position arithmetic is refuted by TLC as a model canary.",
      "Trusted: TLC; the concretisation of character classes (a, e-acute, hiragana a, U+1F600, LF); LF-only line ends; every change carries a range.",
      "TLA+ spec of client copy + LSP positions, TLC state-graph enumeration and simulation, spec->impl replay through the real server",
      "DESIGN.md section 6 C28")

check("C08", "model_checking",
      "LexerRef.tla is a character-level reference tokenizer whose input is chosen nondeterministically step by step, so TLC's state graph contains every input of <= 5 characters over 9 character classes (quick; <= 6 over 12 classes thorough: 66 k / 3.3 M inputs) with the reference tokens and positions (line = 1 + preceding line feeds, column = characters since the last line feed). Every input is lexed by the real lexer in-process under catch_unwind with a watchdog: no crash or hang; an Ok stream ends with EOF, balances Indent/Dedent, is ordered, and its identifier/number/string/+/parenthesis tokens sit where the reference puts them; an Err result carries an error. Long random inputs over a 28-class alphabet (tabs, bidi, astral, braces, quotes) and the corpus files are judged for totality, stream shape and the verbatim rule (source text at the reported position equals the token).",
      "Trusted: TLC; LexerRef.tla for its small alphabet (inputs it marks unknown are judged for totality only); inputs the lexer rejects are not compared for positions.",
      "TLA+ reference tokenizer with nondeterministic input explored exhaustively by TLC, spec->impl replay; stream monitor on simulated inputs",
      "DESIGN.md section 6 C08")

check("C24", "model_checking",
      "DiagPos.tla derives lines `print! <prefix arguments>, <erroneous construct>` with up to 2 (quick) / 3 (thorough) prefix arguments from a 13-member palette of constructs whose source length differs from their cooked token length (five escape kinds, interpolation, 2/3/4-byte characters, inline block comment, digit separator, non-ASCII identifier), after nothing / a multi-line string / a multi-line comment, for an undefined name and an ill-typed operand, and computes the expected line and columns. Each of the 1092 (quick) / 14 k (thorough) programs is compiled in-process: every diagnostic must lie inside the input, the injected error's location must cover exactly the offending text, and rendering every diagnostic must not crash.",
      "Trusted: TLC; the palette table (cross-checked against the concrete strings at run time); a type error may be located at the operand or the whole expression.",
      "TLA+ derivation of error lines with position arithmetic, exhaustive TLC enumeration, spec->impl replay through the in-process compiler",
      "DESIGN.md section 6 C24")

check("C25", "model_checking",
      "ReplFraming.tla specifies the REPL wire protocol (inst | 16-bit size | data, continuation frames) on a scaled-down size field; TLC verifies for every interleaving of sends and every split of the byte stream into reads that decoded messages equal sent ones and that sender and decoder stay at a common frame boundary, and refutes the three historical deviations (saturating size field, to_bytes overflow, short reads) as model canaries. ReplCases.tla derives replay cases (sessions x message-length classes 0..2*65535+1 x read-size schedules); each is replayed in all sender/receiver combinations of the real Rust MessageStream (guarded verif_api) and the real Python MessageStream (class extracted from src/scripts/repl_server.py) over in-memory sockets delivering exactly the scheduled chunk sizes. Session level: inputs whose source or output size comes from the same classes are evaluated by erg::DummyVM against a real REPL server; reply i must be the result of input i.",
      "Trusted: TLC; small-scope scaling of the size field (3 stands for 65535); the in-memory socket models.",
      "TLA+ protocol spec model-checked over all stream splits; spec-derived cases replayed through both real framing implementations and real REPL sessions",
      "DESIGN.md section 6 C25")

check("C04", "model_checking",
      "ConstFold.tla gives the Python-semantics value of every `a op b` over an operand grid of integers (boundaries 2**31, 2**63; arbitrary precision through BigInt.tla), dyadic floats and booleans for 15 arithmetic, comparison and boolean operators (2160 cases quick, 6.6 k thorough); TLC also checks the floor-division/modulo law on the reference itself. Each case is compiled in-process as a constant definition `N = a op b` (a compiler crash is a violation, an ordinary diagnostic is allowed) and as a run-time evaluation of the same expression through function parameters; both are executed and the printed compile-time value must equal the run-time value. The specification's value and CPython's value of the same expression are the second and third voters (cases where they disagree are excluded and counted).",
      "Trusted: TLC; BigInt.tla / the dyadic float model (cross-checked against CPython on every run); the in-process compile harness and py/verif/pyrun.py.",
      "TLA+ reference semantics enumerated by TLC; spec->impl replay comparing compile-time and run-time evaluation, CPython as third voter",
      "DESIGN.md section 6 C04")

check("C01", "translation_validation",
      "ErgProg.tla is an operational reference semantics of the fragment: its state machine appends statements (integer literals incl. 2**31/2**63/2**64 boundaries, floats, strings with quotes/backslashes/braces, arithmetic, comparisons, interpolation, if!, for!/while! loops, user functions incl. pattern, lambda and default-argument functions, lists, assertions, tuple patterns) and maintains the environment and the printed output the program must have (Python semantics through PyVal/BigInt). TLC enumerates the literal x literal x operator grid exhaustively (11 literals x 11 operators) and simulates programs of up to 14 statements. Each program is compiled in-process by the real compiler and executed; stdout and the uncaught exception class must equal the specification's. An independent Python translation run by CPython is the third voter: a program is judged only when specification and CPython agree.",
      "Trusted: TLC; ErgProg.tla/PyVal.tla (cross-checked against CPython on every program); the renderers in py/verif/ergprog.py; only programs the compiler accepts are judged.",
      "TLA+ operational semantics enumerated/simulated by TLC; generated programs compiled and run, output compared with the spec and a CPython rendering",
      "DESIGN.md section 6 C01")

check("C12", "model_checking",
      "Optimizer.tla states when an unreferenced private definition may be removed without changing a program's trace of prints and raises; TLC checks the guard on all 3-definition programs (4913 states) and refutes the historical result-type guard as a model canary. ErgProg.tla supplies programs in which most definitions are unused: every program of <= 3 (quick) / 4 (thorough) statements over literals, raising and non-raising arithmetic, calls, lists, indexing and `u = print! ..` definitions, plus simulated programs of up to 14 statements. Each is compiled in-process at -o 0, 1, 2 and 3 and executed: stdout and the uncaught exception class must be the same at every level and equal to the specification's (CPython as third voter).",
      "Trusted: TLC; ErgProg.tla/PyVal.tla (cross-checked against CPython on every program); programs rejected at every level are not judged.",
      "TLA+ optimiser model checked by TLC + TLA+ reference semantics; generated programs compiled at four optimisation levels and compared",
      "DESIGN.md section 6 C12")

check("C13", "translation_validation",
      "The target version is a constant of ErgProg.tla's semantics: the expected output does not depend on it. Grid and simulated programs of ErgProg.tla are compiled in-process for each installed target (3.7, 3.9, 3.11 quick; 3.7-3.11 thorough, as `erg --py-command P compile` does), loaded and run by that target's interpreter; stdout and exception class must equal the specification's, hence each other's (CPython as third voter). `erg --py-command P run` is checked through the CLI with a program printing sys.version_info.",
      "Trusted: TLC; ErgProg.tla/PyVal.tla; the interpreters under /root/.pyenv; programs rejected by the compiler are not judged.",
      "TLA+ reference semantics with the target as parameter; generated programs compiled and run per target interpreter",
      "DESIGN.md section 6 C13")

check("C17", "translation_validation",
      "ErgProg.tla supplies programs whose string literals contain quotes, backslashes, braces and apostrophes besides the rest of the fragment (string-heavy simulated programs, a sample of the grid, one program per string of the palette). Each program is transpiled in-process; whenever a script is produced it must compile as Python for the target interpreter, and running it must print what the compiled bytecode of the same program prints and end with the same exception class / exit status; ErgProg.tla is the third voter naming the wrong side. Declined programs (diagnostic or todo!()) are counted, not judged.",
      "Trusted: TLC; ErgProg.tla; py/verif/pyrun.py; only programs for which a script is produced are judged.",
      "TLA+ reference semantics; differential execution of transpiled script vs bytecode with the spec as third voter",
      "DESIGN.md section 6 C17")

check("C18", "model_checking",
      "JsonVal.tla derives constant values in prefix form (integers incl. 2**63/2**64, floats, strings with quotes, backslashes, braces, slashes and non-ASCII characters, booleans, None, homogeneous lists, tuples, records, string-keyed dicts) exhaustively to depth 1 (about 600 values) and by simulation to depth 3. Modules binding these values to public names (with a private binding in between) are transpiled in-process with the JSON target; the output must parse with json.loads and map each public binding to its value (tuples as arrays, None as null, numbers by value); private bindings must not appear.",
      "Trusted: TLC; the structural mapping from derived value trees to expected Python values in py/verif/props/c18.py.",
      "TLA+ value grammar enumerated by TLC; spec->impl replay through the JSON transpile target with json.loads comparison",
      "DESIGN.md section 6 C18")

check("C14", "translation_validation",
      "Artefact model checking. Programs (examples/ and tests/should_ok corpus, ErgProg.tla programs, generated programs large enough to need EXTENDED_ARG operands) are compiled in-process for each target (3.11 and 3.8 quick; 3.7-3.11 thorough). py/verif/extract_cfg.py, run under the target interpreter, turns every code object (recursively) into the constant of CodeObjCFG.tla using that interpreter's own dis.get_instructions / dis.stack_effect / exception table. TLC explores every path of every code object as a state machine over (code object, instruction, stack depth): jumps land on instruction boundaries, the stack never underflows, co_stacksize covers every reachable depth, operand indices are in range, and the line table gives every reachable instruction a line of the source file. After each violation the offending code objects are excluded and TLC is re-run, so all violations are found. 17 recorded findings (line tables on all targets; co_stacksize off by one in two constructs; odd jump operands on 3.7-3.9) are listed in known_findings.json by (invariant, target, opcode).",
      "Trusted: TLC; the target interpreters' dis module; depth invariants are not judged on 3.7 (its stack_effect cannot distinguish branch edges).",
      "P3 artefact model checking: emitted code objects loaded as TLA+ constants, abstract interpreter explored by TLC",
      "DESIGN.md section 6 C14")

check("C15", "translation_validation",
      "(a) MarshalVals.tla derives constant values (integers around every digit-count boundary up to 2**64-1, floats incl. -0.0/inf/nan/denormal, strings of every encoding class and the 255/256-character boundary, booleans, None, nested tuples; exhaustive to depth 1, simulated to depth 3). Each is serialised in-process by the real ValueObj::into_bytes; Marshal.tla -- the decoder side of the marshal wire format as a TLA+ recursive-descent machine with reference table -- decodes the bytes under TLC and must reproduce the expected typed value exactly with no trailing bytes; CPython's marshal.loads of the same bytes is the second voter. (b) Programs embedding these constants and ErgProg programs with lambdas/closures are compiled; the interpreter must unmarshal every file and the compiler's own reader (CodeObj::from_pyc, i.e. `erg --mode read`) must read every file back. (c) Fault enumeration: every truncation and 1200 single-byte mutations (tag substitutions, flag flips) of valid files must make the reader report an error or succeed, never panic, abort or hang.",
      "Trusted: TLC; Marshal.tla (validated against CPython's unmarshaller on every value); BigInt.tla.",
      "TLA+ decoder machine run by TLC on the real serialiser's output (P3); fault enumeration on the real reader",
      "DESIGN.md section 6 C15")

check("C09", "model_checking",
      "Nesting.tla is a pushdown generator of nested inputs over eight constructs (parentheses, list, call arguments, index, set braces, lambda, indented block, string interpolation): every mixed stack of depth <= 3 (4 thorough), closed completely or truncated at any point, and depth ramps 1..1000 (3000) of each construct and of each alternating pair, with the outcome class the parser must show (balanced nesting up to 200 of the plain bracket constructs must parse; nothing may crash, abort or hang). Each input goes through the CLI (`erg --mode parse`) so that the real analysis thread and its stack are under test; random token sequences and truncations / single-token mutations of corpus files are added. One recorded finding: no nesting limit (stack overflow).",
      "Trusted: TLC; the renderer of constructs in py/verif/props/c09.py; the debug build of the CLI (as the repository's tests use).",
      "TLA+ pushdown generator enumerated by TLC; spec->impl replay through the CLI with outcome classification",
      "DESIGN.md section 6 C09")

check("C07", "exploration",
      "ErgSoup.tla derives syntactically valid programs whose operand holes may be filled with ANY earlier variable (most are ill-typed): literals, operators, calls, lists, records, lambdas, unannotated multi-statement functions, classes, match and if expressions, mutation; in addition corpus files are mutated token-wise and kept when the real parser accepts them. Every program is checked and compiled in-process at -o 0 and -o 3 (all four levels in the thorough tier): the outcome must be success or ordinary diagnostics; a panic, abort, hang, CompilerSystemError or a diagnostic with 'bug of Erg' text is a violation, classified by the call site that produced it (panic file and message class, or internal-error constructor).",
      "Trusted: TLC; the in-process compile harness (64 MB stack, watchdog; hangs are re-confirmed alone); the raw parser as the definition of 'syntactically valid'.",
      "TLA+ program-derivation machine simulated by TLC plus corpus mutation; every derived program replayed into the real checker/compiler at every -o level, internal errors classified by call site",
      "DESIGN.md section 6 C07")

check("C02", "model_checking",
      "TypedProg.tla keeps, for every binding of a derived program over annotated Nat/Int/Float/Str/Bool/List values, user functions with annotated parameters and method calls, both the static type given by the declared operator table (transcribed from context/initialize/classes.rs) and the value given by Python semantics (BigInt/PyVal); TLC checks TypeSound (value in type) exhaustively for 3-statement programs over literals of both signs: it holds with the entry Int ** Int corrected to Int and is violated by the table as the compiler has it (counterexample (-2) ** 7 : Nat -- known finding). TLC-simulated programs of up to 9 statements plus the exhaustive literal-pair x operator x signature grid are compiled and run: an accepted program must not end with TypeError, AttributeError, NameError or the runtime classes' value-constraint error.",
      "Trusted: TLC; PyVal/BigInt value semantics (the run-time values of all bindings agree with the specification's on every run); the compile harness and py/verif/pyrun.py. Only programs the real checker accepts are judged.",
      "TLA+ typed operational semantics model-checked by TLC (TypeSound); derived programs replayed into the real checker, compiler and interpreter",
      "DESIGN.md section 6 C02")

check("C34", "model_checking",
      "Same specification as C02 (TypedProg.tla, TypeSound). For every derived program the real checker's typed tree (what `erg --mode typecheck` prints) gives the type it inferred for each top-level binding; the type string is parsed into a membership predicate (classes, singleton/enum types, intervals, length-indexed lists, unions) and evaluated on the value the binding really holds after the compiled module ran (namespace dump of the executed module). A literal index accepted for a list whose reported type carries its length must not raise IndexError; a `Nat can't be negative` error of the runtime wrapper inserted for an inferred Nat is a value outside its type.",
      "Trusted: TLC; the type-string parser/denotation in py/verif/typedprog.py (unparsed forms are skipped and counted); pyrun's namespace dump.",
      "TLA+ typed operational semantics model-checked by TLC; per-binding inferred types from the real checker evaluated against recorded run-time values",
      "DESIGN.md section 6 C34")

check("C05", "model_checking",
      "TypedProg.tla's Inject action appends to a well-typed derived program exactly one statement with a definite static error (operator unsupported even by the most precise types of the operand values, wrong arity, argument value outside the annotated parameter type, undefined name, missing attribute) at one of five nesting depths (top level, function body, branch inside a function, lambda inside a list, call argument inside a nested block); TLC checks IllTyped (the declared table has no typing for the injected statement) on every such state. The real compiler must reject each program with at least one error and produce no code (the error-free prefix must be accepted, otherwise the case is not judged); a sample goes through `erg run` and must not execute anything.",
      "Trusted: TLC; the declared operator table in TypedProg.tla (transcribed from classes.rs, incl. Str % Obj and List * Nat); the renderer of nesting contexts in py/verif/typedprog.py.",
      "TLA+ derivation with a fault-injection action model-checked by TLC (IllTyped); derived programs replayed into the real compiler and CLI",
      "DESIGN.md section 6 C05")

check("C33", "model_checking",
      "MatchProg.tla enumerates every match over 11 scrutinee types (Int, Nat, Str, Bool, literal enums, an interval, unions) with up to 3 (quick) / 4 (thorough) literal, class and wildcard arms, defines the run-time meaning (first matching arm for each value of the type's sampled domain) and transcribes the checker's coverage rule; TLC checks RuleSound (rule accepts => every value has an arm) on all 4.8 k / 70 k states. Each match is rendered as a function plus one call per domain value and compiled: if the real checker accepts it, no value may be without an arm (judged by the specification and an independent Python rendering of the arms) and the run must not fail.",
      "Trusted: TLC; the sampled domains (every literal an arm can mention and its neighbours); py/verif/pyrun.py.",
      "TLA+ model of match coverage checked by TLC (RuleSound); all derived matches replayed into the real compiler and run on every sampled scrutinee value",
      "DESIGN.md section 6 C33")

check("C06", "model_checking",
      "Subtyping.tla defines the universe of types up to nesting depth 2 (built-in classes and traits, literal enum and interval refinement types, unions, intersections, lists with and without length, tuples; 280 types quick, 560 thorough), closed under subterms. TLC enumerates it; `vh subtype` builds each type with the compiler's own constructors and asks the real Context::subtype_of for every ordered pair; the 0/1 matrix is given back to TLC (artefact model checking), which scans it row by row and reports every failing instance of: reflexivity, transitivity (every triple), Never below / Obj above every type, the numeric tower Bool <: Nat <: Int <: Ratio <: Float <: Complex, T <: T or U, T and U <: T, enum/interval below the class of its values. A corrupted matrix is the canary.",
      "Trusted: TLC; the JSON -> Type builder in harness/vh/src/subty.rs (uses erg_compiler::ty::constructors); the universe is a sample of depth <= 2, not all types.",
      "TLA+ type universe enumerated by TLC; the real subtype relation recorded as an artefact and model-checked by TLC against the preorder/lattice laws",
      "DESIGN.md section 6 C06")

check("C26", "model_checking",
      "RuntimeOps.tla is a state machine over one object of the runtime classes (Nat, Int, Float, Bool, plain Python operands, and the mutable cells Nat!, Int!, Float!): actions are the binary operators with the object on either side, unary operators, succ/pred, .mutate(), inc!/dec! and arithmetic on cells; the next state is the value Python's built-ins compute (PyVal/BigInt, integers up to 2**64) in the class the Erg declaration promises. TLC checks NatNonNeg and ClassOfValue on every reachable state, and rejects the machine with dec! below zero on Nat! cells (0.dec!() = -1) and with Int ** Int : Nat. The exhaustive start-object x operation x operand grid and simulated chains are replayed on the real classes from the staged lib/core under python 3.7-3.11: after each step the result must equal the built-in result for the plain operands, be a value of the declared class (results are re-wrapped as the generated code does), and no Nat or Nat! may hold a negative number.",
      "Trusted: TLC; CPython's built-in arithmetic as the reference the statement names (the specification's value is the third voter); py/verif/rtops.py.",
      "TLA+ state machine of the runtime classes model-checked by TLC; behaviours replayed on the real classes under every supported interpreter",
      "DESIGN.md section 6 C26")

check("C20", "model_checking",
      "ImportGraph.tla: the initial states are all import functions over N modules (3 quick, 4 thorough; self-imports, cycles of any length, diamonds), larger projects of 7 modules are drawn import by import in simulation (general and acyclic-by-construction); the state machine executes the entry module under the stated semantics (a module's top level runs once, its imports first). TLC checks Once, StackOK, AllReached and Terminates (liveness under weak fairness) and emits every final state with the reachable modules, the modules on cycles and the order of the `init` lines. Each graph, distinct on its reachable part, is written as a project (typed public bindings, `dep.x: Int` ascriptions for every import, one unused private variable per module, `print! \"init m\"`) and given to the real `erg check` and `erg run`: both terminate without crash, the project is accepted, each reachable module's unused-variable warning appears exactly once (analysed once), every `init m` is printed once and, for acyclic graphs, in the specification's order.",
      "Trusted: TLC; the project renderer in py/verif/props/c20.py; the unused-variable warning as the observable of 'analysed once'. Thread interleavings of the real build are not modelled here (C19 varies them).",
      "TLA+ model of module execution over all import graphs checked by TLC; every graph replayed as a real project through `erg check` and `erg run`",
      "DESIGN.md section 6 C19/C20 and section 12")

check("C19", "model_checking",
      "The projects are ImportGraph.tla's (all import functions over 3 modules, simulated cyclic and acyclic projects of 7): in the specification the outcome of a build is a function of the import function alone (the machine has no scheduling choice), so every schedule of the real parallel build must give that one outcome. Each project is compiled by `erg compile` unjittered, under 3 (quick) / 8 (thorough) seeds of the hook `erg_common::spawn::verif_jitter` (cfg(erg_verif): every analysis thread sleeps for a seed- and module-dependent time at its start and before its end), pinned to one core, and by a build of erg with the `parallel` feature off (harness_seq/ergseq). Bytes 16.. of the entry's .pyc and the sorted diagnostics (severity, code, file, line, message) must be identical across all runs. Canary: the jitter hook measurably delays a build.",
      "Trusted: TLC; the hook placement (thread start and end, not inside the promise table); time-outs of 180 s per compile.",
      "TLA+ model (schedule-free build outcome) checked by TLC; generated projects compiled under hook-injected thread timings and with the sequential build, artefacts compared",
      "DESIGN.md section 6 C19/C20 and section 12")

check("C30", "model_checking",
      "Rename.tla derives programs whose tokens carry the number of the binding they denote (globals, functions, parameters and lambda parameters that shadow globals, default arguments referring to globals, closures, results of calls) and string literals containing the same spelling on the same line; TLC checks WellScoped on every program (exhaustive up to 4 lines, simulated up to 8). For every occurrence of every binding the real language server (els through molc's FakeClient, `vh_els rename`) is asked to rename it to a fresh identifier after it has analysed the document; the workspace edit is applied: the renamed program must type-check exactly when the original does, print the same output, and no token of the binding may keep the old spelling.",
      "Trusted: TLC; the token layout in py/verif/props/c30.py; the in-process compile-and-run harness for the before/after comparison.",
      "TLA+ derivation of programs with explicit binding structure checked by TLC; every rename request replayed on the real language server and the edited program compiled and run",
      "DESIGN.md section 6 C30 and section 12")

check("C29", "model_checking",
      "DiagSync.tla: documents are sequences of top-level definitions (literal, string, reference to another definition, a definition that is a type error by itself); a notification carries one or two line-based edits (insert, delete, replace; ranges starting in column 0, the form that triggers the server's incremental AST/HIR patching); TLC explores the histories (exhaustively for single-edit notifications on documents of up to 3 definitions, by deterministic simulation for three notifications of up to two edits), checks that the text tracks the edits and emits initial document, notifications, final document and the lines a fresh analysis must flag. Each history is replayed on the real language server (`vh_els diagsync`): didOpen, then didChange + didSave per notification, a request as barrier and a client-side quiescence wait (two consecutive barriers 700 ms apart without a new publishDiagnostics for the document; the server's own background re-check runs every 500 ms); a second, fresh server opens the final text. The last diagnostics the two servers published for the document must be equal as sets (and as lists: duplicates are reported separately); the specification's error lines are the third voter.",
      "Trusted: TLC; the quiescence protocol in harness/vh_els/src/diagsync.rs (didOpen/didSave analyse synchronously inside dispatch; the wait only has to outlast the 500 ms background poll); only histories for which the server's text equals the final text are judged (C28 covers the rest).",
      "TLA+ model of edit histories explored by TLC; every history replayed on the real language server and compared with a fresh server on the final text",
      "DESIGN.md section 12")

NOT_APPLICABLE = {
    "C16": "static comparison of opcode/magic tables with external ground truth: no state or behaviour for a TLA+ specification to constrain (DESIGN.md section 7)",
    "C27": "data audit of ~150 declaration files against installed interpreters/typeshed: no behaviour to model in TLA+ (DESIGN.md section 7)",
}


def main():
    props = [json.loads(l) for l in open(os.path.join(VERIF, "properties.jsonl"))]
    try:
        commits = subprocess.run(["git", "-C", "/repo", "log", "--format=%H %s", "affbfc8a..HEAD"],
                                 stdout=subprocess.PIPE, text=True).stdout.splitlines()
    except Exception:
        commits = []
    hook_commits = [c.split()[0] for c in commits if " hook:" in c or " verif-hook" in c]
    checks = []
    for p in props:
        c = CHECKS.get(p["id"])
        if not c:
            continue
        checks.append({
            "property_id": p["id"],
            "quick_cmd": f"bin/check {p['id']} quick",
            "thorough_cmd": f"bin/check {p['id']} thorough",
            "evidence_file": f"/verif/evidence/{p['id']}.json",
            "replay_cmd_template": f"bin/check {p['id']} --replay {{path}}",
            "engine": "tlc+vh",
            "level_claimed": {"category": c["category"], "text": c["text"], "design_ref": c["design_ref"]},
            "level_note": c["note"],
            "technique": c["technique"],
        })
    na = []
    for p in props:
        if p["id"] in CHECKS:
            continue
        na.append({"property_id": p["id"],
                   "reason": NOT_APPLICABLE.get(p["id"], "check not built yet (under construction; see DESIGN.md section 10 for the build order)")})
    m = {
        "version": 1,
        "setup_cmd": "bin/setup",
        "hooks": {
            "guard": "erg_verif",
            "enable": "rustc --cfg erg_verif, set for every harness build by /verif/harness/.cargo/config.toml (the harness compiles /repo's crates as path dependencies)",
            "baseline_off_cmd": "cd /repo && cargo test --workspace --no-fail-fast --offline",
            "source_commits": hook_commits,
            "add_only": True,
        },
        "engines": [
            {"name": "tlc", "path": "/verif/specs", "serves_properties": sorted(CHECKS),
             "kind_free_text": "TLA+ specifications checked with TLC 1.8 (exhaustive + -simulate); behaviours emitted as JSON for replay"},
            {"name": "vh", "path": "/verif/harness", "serves_properties": sorted(CHECKS),
             "kind_free_text": "Rust conformance harness linked against /repo's crates (path dependencies, cfg erg_verif) and the erg CLI built from the working tree"},
        ],
        "checks": checks,
        "notes": "Model-based verification with explicit TLA+ specifications; see DESIGN.md. known_findings.json lists recorded/fixed defects.",
        "not_applicable": na,
    }
    with open(os.path.join(VERIF, "MANIFEST.json"), "w") as f:
        json.dump(m, f, indent=1)
    print(f"{len(checks)} checks, {len(na)} not applicable")


if __name__ == "__main__":
    main()
