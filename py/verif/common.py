"""Shared machinery for the /verif checks: building the harness from /repo's working tree,
staging ERG_PATH, running TLC, evidence files, known findings, exit-code discipline.

Exit codes (DESIGN.md section 3): 0 = property held on everything explored (KNOWN-FINDING lines
allowed), 1 = at least one `VIOLATION property=<id> replay=<path>` line, 2 = tool error.
"""
import fcntl
import hashlib
import json
import os
import re
import shutil
import subprocess
import sys
import time
import traceback

VERIF = os.path.dirname(os.path.dirname(os.path.dirname(os.path.abspath(__file__))))
REPO = os.environ.get("VERIF_REPO", "/repo")
BUILD = os.path.join(VERIF, ".build")
STAGE = os.path.join(VERIF, ".stage")
TARGET = os.path.join(BUILD, "target", "debug")
SPECS = os.path.join(VERIF, "specs")
EVIDENCE = os.path.join(VERIF, "evidence")
REPLAYS = os.path.join(VERIF, "replays")
PYENV = "/root/.pyenv/versions"
PYTHONS = {
    "3.7": f"{PYENV}/3.7.16/bin/python3",
    "3.8": f"{PYENV}/3.8.18/bin/python3",
    "3.9": f"{PYENV}/3.9.18/bin/python3",
    "3.10": f"{PYENV}/3.10.13/bin/python3",
    "3.11": f"{PYENV}/3.11.7/bin/python3",
}
DEFAULT_PY = PYTHONS["3.11"]
NCPU = os.cpu_count() or 8


class ToolError(Exception):
    pass


def log(*a):
    print(*a, file=sys.stderr, flush=True)


# ------------------------------------------------------------------------------------------
# building
# ------------------------------------------------------------------------------------------
class _Lock:
    def __init__(self, name):
        os.makedirs(BUILD, exist_ok=True)
        self.path = os.path.join(BUILD, name + ".lock")

    def __enter__(self):
        self.f = open(self.path, "w")
        fcntl.flock(self.f, fcntl.LOCK_EX)
        return self

    def __exit__(self, *a):
        fcntl.flock(self.f, fcntl.LOCK_UN)
        self.f.close()


def cargo_build(packages, timeout=1800):
    """cargo build (offline, hooks cfg on via harness/.cargo/config.toml) of the given harness
    packages against /repo's *current working tree* (path dependencies)."""
    env = dict(os.environ)
    env["CARGO_NET_OFFLINE"] = "true"
    env.pop("RUSTFLAGS", None)
    cmd = ["cargo", "build", "--offline", "-q"]
    for p in packages:
        cmd += ["-p", p]
    with _Lock("cargo"):
        t0 = time.time()
        r = subprocess.run(cmd, cwd=os.path.join(VERIF, "harness"), env=env,
                           stdout=subprocess.PIPE, stderr=subprocess.STDOUT, text=True,
                           timeout=timeout)
        if r.returncode != 0:
            raise ToolError("cargo build failed:\n" + r.stdout[-4000:])
        log(f"[build] {' '.join(packages)} ok in {time.time() - t0:.1f}s")


def build_core():
    """vh (in-process drivers) + erg CLI, features as a plain `cargo build` of erg gives."""
    cargo_build(["vh", "ergbin"])
    return os.path.join(TARGET, "vh"), os.path.join(TARGET, "erg")


def build_els():
    cargo_build(["vh_els"])
    return os.path.join(TARGET, "vh_els")


def stage_erg_path():
    """Copy /repo/crates/erg_compiler/lib (runtime library + declarations) of the current tree
    to /verif/.stage/erg/lib and return the ERG_PATH value.  erg's build.rs only refreshes
    ~/.erg when cargo reruns it, so the checks never rely on ~/.erg."""
    dst = os.path.join(STAGE, "erg")
    os.makedirs(dst, exist_ok=True)
    with _Lock("stage"):
        r = subprocess.run(["rsync", "-a", "--delete",
                            os.path.join(REPO, "crates/erg_compiler/lib/"),
                            os.path.join(dst, "lib/")],
                           stdout=subprocess.PIPE, stderr=subprocess.STDOUT, text=True)
        if r.returncode != 0:
            raise ToolError("rsync of runtime lib failed: " + r.stdout)
    return dst


def erg_env(py=None):
    env = dict(os.environ)
    env["ERG_PATH"] = stage_erg_path()
    env.pop("ERG_VERIF_TRACE", None)
    # make `python3`/`python` resolve to the wanted interpreter for erg's default py-command
    pyexe = py or DEFAULT_PY
    env["PATH"] = os.path.dirname(pyexe) + ":" + env.get("PATH", "")
    env["PYENV_VERSION"] = os.path.basename(os.path.dirname(os.path.dirname(pyexe)))
    return env


def scratch(name):
    d = os.path.join(BUILD, "scratch", name)
    shutil.rmtree(d, ignore_errors=True)
    os.makedirs(d, exist_ok=True)
    return d


# ------------------------------------------------------------------------------------------
# TLC
# ------------------------------------------------------------------------------------------
class TlcResult:
    def __init__(self, out, rc, wall):
        self.out = out
        self.rc = rc
        self.wall = wall
        self.generated = 0
        self.distinct = 0
        self.printed = []  # raw strings from PrintT(<<tag, json>>) / PrintT(json)
        self.invariant_violated = None
        self.coverage = {}
        m = None
        for m in re.finditer(r"(\d+) states generated, (\d+) distinct states found", out):
            pass
        if m:
            self.generated, self.distinct = int(m.group(1)), int(m.group(2))
        m = re.search(r"Invariant (\S+) is violated", out)
        if m:
            self.invariant_violated = m.group(1)
        if "is violated" in out and not m:
            m2 = re.search(r"(Temporal properties were violated|Action property \S+ is violated|Deadlock reached)", out)
            self.invariant_violated = m2.group(1) if m2 else "unknown"
        if "Deadlock reached" in out and self.invariant_violated is None:
            self.invariant_violated = "Deadlock"
        if "Temporal properties were violated" in out and self.invariant_violated is None:
            self.invariant_violated = "Temporal"
        # coverage lines: <Action line 10, col 1 to line 12, col 20 of module M>: 12:34
        for m in re.finditer(r"^<(\w+) line \d+, col \d+ to line \d+, col \d+ of module (\w+)>: (\d+):(\d+)", out, re.M):
            self.coverage[m.group(1)] = (int(m.group(3)), int(m.group(4)))

    @property
    def ok(self):
        return self.rc == 0 and self.invariant_violated is None

    def tagged(self, tag):
        """JSON payloads printed as PrintT(<<tag, ToJson(x)>>) -> list of python objects."""
        res = []
        pat = re.compile(r'^<<"' + re.escape(tag) + r'", "(.*)">>$', re.M)
        for m in pat.finditer(self.out):
            s = m.group(1)
            # TLC prints the TLA+ string with \" and \\ escapes
            s = s.replace('\\\\', '\x00').replace('\\"', '"').replace('\x00', '\\')
            res.append(json.loads(s))
        return res


def tlc(module_path, cfg=None, workers=8, timeout=900, env_extra=None, simulate=None, depth=None,
        seed=None, coverage=True, deadlock=False, heap="4g", dfs=False, extra=None, tag="x",
        postcondition_ok=False):
    """Run TLC on module_path (absolute or relative to specs/).  Never raises on a property
    violation; raises ToolError on parse errors / timeouts."""
    if not os.path.isabs(module_path):
        module_path = os.path.join(SPECS, module_path)
    d = os.path.dirname(module_path)
    mod = os.path.basename(module_path)
    cfg = cfg or mod.replace(".tla", ".cfg")
    meta = os.path.join(BUILD, "tlc", f"{tag}-{os.getpid()}-{int(time.time() * 1000) % 100000000}")
    os.makedirs(meta, exist_ok=True)
    cmd = ["java", "-XX:+UseParallelGC", f"-Xmx{heap}", "-Xss1g"]
    if dfs:
        cmd.append("-Dtlc2.tool.queue.IStateQueue=StateDeque")
    libdirs = [os.path.join(SPECS, "lib")]
    cmd += [f"-DTLA-Library={':'.join(libdirs)}"]
    cmd += ["-cp", "/opt/veriftools/tla/tla2tools.jar:/opt/veriftools/tla/CommunityModules-deps.jar",
            "tlc2.TLC", "-workers", str(workers), "-metadir", meta, "-cleanup", "-noGenerateSpecTE",
            "-config", cfg]
    if coverage and not simulate:
        cmd += ["-coverage", "1"]
    if not deadlock:
        cmd += ["-deadlock"]
    if simulate:
        cmd += ["-simulate", f"num={simulate}"]
    if depth:
        cmd += ["-depth", str(depth)]
    if seed is not None:
        cmd += ["-seed", str(seed)]
    if extra:
        cmd += extra
    cmd.append(mod)
    env = dict(os.environ)
    env.pop("JAVA_TOOL_OPTIONS", None)
    if env_extra:
        env.update({k: str(v) for k, v in env_extra.items()})
    t0 = time.time()
    try:
        r = subprocess.run(cmd, cwd=d, env=env, stdout=subprocess.PIPE, stderr=subprocess.STDOUT,
                           text=True, timeout=timeout)
    except subprocess.TimeoutExpired:
        shutil.rmtree(meta, ignore_errors=True)
        raise ToolError(f"TLC timeout after {timeout}s on {mod}/{cfg}")
    finally:
        pass
    shutil.rmtree(meta, ignore_errors=True)
    res = TlcResult(r.stdout, r.returncode, time.time() - t0)
    # rc: 0 ok, 10 assumption, 11 deadlock, 12 safety violation, 13 liveness; >=75 errors
    if r.returncode not in (0, 10, 11, 12, 13):
        raise ToolError(f"TLC failed rc={r.returncode} on {mod}/{cfg}:\n" + r.stdout[-3000:])
    if postcondition_ok and "Error: Postcondition" in r.stdout:
        return res  # trace validation: a rejected trace is data for the caller, not a tool error
    if "Error: " in r.stdout and res.invariant_violated is None and r.returncode != 0:
        raise ToolError(f"TLC error on {mod}/{cfg}:\n" + r.stdout[-3000:])
    return res


# ------------------------------------------------------------------------------------------
# known findings
# ------------------------------------------------------------------------------------------
def canon(obj):
    return json.dumps(obj, sort_keys=True, separators=(",", ":"))


class KnownFindings:
    def __init__(self):
        p = os.path.join(VERIF, "known_findings.json")
        self.entries = []
        if os.path.exists(p):
            self.entries = json.load(open(p)).get("findings", [])

    def match(self, prop, sig):
        for e in self.entries:
            if e["property"] == prop and canon(e["sig"]) == canon(sig):
                return e
        return None


# ------------------------------------------------------------------------------------------
# check context
# ------------------------------------------------------------------------------------------
class Ctx:
    def __init__(self, prop, tier, seed, level):
        self.prop = prop
        self.tier = tier
        self.seed = seed
        self.level = level
        self.t0 = time.time()
        self.cov = {}
        self.assumptions = []
        self.violations = []      # (sig, replay_path)
        self.known_hits = {}      # canon(sig) -> (entry, count)
        self.known_paths = {}
        self.kf = KnownFindings()
        self.samples = []
        self.drift = []
        self._seen_sigs = set()

    # -- coverage counters
    def add(self, key, n=1):
        self.cov[key] = self.cov.get(key, 0) + n

    def set(self, key, v):
        self.cov[key] = v

    def sample(self, s, limit=6):
        if len(self.samples) < limit:
            self.samples.append(s)

    def tlc_stats(self, res, name=None):
        self.add("states", res.distinct)
        self.add("transitions", res.generated)
        if name:
            self.cov.setdefault("tlc_runs", []).append(
                {"spec": name, "distinct": res.distinct, "generated": res.generated,
                 "wall_s": round(res.wall, 1)})

    # -- verdicts
    def violation(self, sig, replay, what):
        """Report a property violation demonstrated on the real code.  `sig` identifies the
        failing input/call-site/history class; listed signatures become KNOWN-FINDING lines."""
        e = self.kf.match(self.prop, sig)
        key = canon(sig)
        if e is not None:
            ent = self.known_hits.get(key)
            self.known_hits[key] = (e, (ent[1] if ent else 0) + 1)
            if ent is None:
                # keep the first case of a listed finding as a replay file too
                os.makedirs(os.path.join(REPLAYS, self.prop), exist_ok=True)
                h = hashlib.sha1(key.encode()).hexdigest()[:10]
                path = os.path.join(REPLAYS, self.prop, f"known-{h}.json")
                doc = {"property": self.prop, "tier": self.tier, "seed": self.seed, "sig": sig, "what": what, "known_finding": True}
                doc.update(replay)
                with open(path, "w") as f:
                    json.dump(doc, f, indent=1, default=str)
                self.known_paths[key] = path
            return False
        if key in self._seen_sigs:
            self.add("violations_same_sig_suppressed")
            return True
        self._seen_sigs.add(key)
        os.makedirs(os.path.join(REPLAYS, self.prop), exist_ok=True)
        h = hashlib.sha1(key.encode()).hexdigest()[:10]
        path = os.path.join(REPLAYS, self.prop, f"{self.tier}-{h}.json")
        doc = {"property": self.prop, "tier": self.tier, "seed": self.seed, "sig": sig,
               "what": what}
        doc.update(replay)
        with open(path, "w") as f:
            json.dump(doc, f, indent=1, default=str)
        self.violations.append((sig, path, what))
        return True

    def model_drift(self, what):
        self.drift.append(what)

    def finish(self):
        for key, (e, n) in sorted(self.known_hits.items()):
            print(f"KNOWN-FINDING: property={self.prop} {e['what']} (sig={key}; {n} case(s) this run)")
        for sig, path, what in self.violations:
            log(f"violation: {what} sig={canon(sig)}")
            print(f"VIOLATION property={self.prop} replay={path}")
        cov = dict(self.cov)
        cov.setdefault("samples", self.samples if self.samples else ["(none)"])
        if self.drift:
            cov["model_drift"] = self.drift[:20]
        if self.level == "model_checking":
            # the schema's own keys for this level: states/transitions explored by TLC (simulation mode reports no
            # distinct-state count: the number of distinct emitted behaviours stands in), and the number of
            # specification behaviours replayed into / validated against the implementation
            n_impl = next((cov[k] for k in ("traces_validated_against_impl", "judged", "steps_replayed", "renamed_programs_judged",
                                            "program_target_pairs_judged", "pairs_asked", "programs", "distinct_nontrivial")
                           if isinstance(cov.get(k), int)), 0)
            cov.setdefault("traces_validated_against_impl", n_impl)
            for k in ("states", "transitions"):
                if not isinstance(cov.get(k), int) or cov.get(k, 0) < 1:
                    cov[k] = max(1, int(cov.get("distinct_nontrivial") or 1))
        cov["known_findings_hit"] = [{"sig": json.loads(k), "cases": n, "replay": self.known_paths.get(k)} for k, (e, n) in sorted(self.known_hits.items())]
        ev = {"property_id": self.prop, "tier": self.tier, "seed": self.seed, "level": self.level,
              "coverage": cov, "assumptions": self.assumptions,
              "wall_s": round(time.time() - self.t0, 2), "violations": len(self.violations)}
        os.makedirs(EVIDENCE, exist_ok=True)
        with open(os.path.join(EVIDENCE, f"{self.prop}.json"), "w") as f:
            json.dump(ev, f, indent=1, default=str)
        sys.stdout.flush()
        return 1 if self.violations else 0


def run_check(prop, level, fn):
    """Entry point wrapper: parses tier/seed, runs fn(ctx), writes evidence, sets exit code."""
    tier = os.environ.get("VERIF_TIER") or (sys.argv[2] if len(sys.argv) > 2 else "quick")
    if tier not in ("quick", "thorough"):
        tier = "quick"
    try:
        seed = int(os.environ.get("VERIF_SEED", "1"))
    except ValueError:
        seed = 1
    ctx = Ctx(prop, tier, seed, level)
    try:
        fn(ctx)
        rc = ctx.finish()
    except ToolError as e:
        log(f"TOOL-ERROR {prop}: {e}")
        rc = 2
    except subprocess.TimeoutExpired as e:
        log(f"TOOL-ERROR {prop}: timeout {e}")
        rc = 2
    except Exception:
        log(f"TOOL-ERROR {prop}: unexpected exception\n" + traceback.format_exc())
        rc = 2
    sys.exit(rc)


# ------------------------------------------------------------------------------------------
# harness helpers
# ------------------------------------------------------------------------------------------
def _run_vh_one(binary, sub, records, timeout, env, args, cwd=None):
    inp = "\n".join(json.dumps(r) for r in records) + "\n"
    cmd = [binary, sub] + (args or [])
    r = subprocess.run(cmd, input=inp, stdout=subprocess.PIPE, stderr=subprocess.PIPE, text=True,
                       timeout=timeout, env=env, cwd=cwd)
    if r.returncode != 0:
        raise ToolError(f"{os.path.basename(binary)} {sub} failed rc={r.returncode}: {r.stderr[-3000:]}")
    out = []
    for line in r.stdout.splitlines():
        line = line.strip()
        if line.startswith("{"):
            out.append(json.loads(line))
    return out


def run_vh(binary, sub, records, timeout=1800, env=None, args=None, jobs=1, cwd=None):
    """Feed NDJSON records to `vh <sub>` on stdin (split over `jobs` processes), return the list
    of result objects; the last element is {"summary": {...}} with numeric fields summed.
    Record indices `i` reported by the harness are rebased to the caller's list."""
    from concurrent.futures import ThreadPoolExecutor
    jobs = max(1, min(jobs, len(records)))
    n = (len(records) + jobs - 1) // jobs
    parts = [(k, records[k:k + n]) for k in range(0, len(records), n)]
    with ThreadPoolExecutor(max_workers=jobs) as ex:
        outs = list(ex.map(lambda p: _run_vh_one(binary, sub, p[1], timeout, env, args, cwd), parts))
    merged, summ = [], {}
    for (k, _), out in zip(parts, outs):
        for o in out:
            if "summary" in o:
                for key, v in o["summary"].items():
                    if isinstance(v, (int, float)):
                        summ[key] = summ.get(key, 0) + v
                    else:
                        summ.setdefault(key, v)
            else:
                if isinstance(o.get("i"), int):
                    o["i"] += k
                merged.append(o)
    if summ:
        merged.append({"summary": summ})
    return merged


def chunks(lst, n):
    for i in range(0, len(lst), n):
        yield lst[i:i + n]


def vh_all(binary, sub, recs, args=None, jobs=12, timeout=3000, env=None, cwd=None):
    """Like run_vh for harness sub-commands that stop (exit code 3) after reporting a hang, or
    die on a stack overflow: the remainder is resubmitted, the offending record gets a result
    {"hang": true} / {"abort": ...}.  Records must carry an "id"."""
    from concurrent.futures import ThreadPoolExecutor

    def one(part):
        out, pending = [], part
        while pending:
            inp = "\n".join(json.dumps(r) for r in pending) + "\n"
            p = subprocess.run([binary, sub] + (args or []), input=inp, stdout=subprocess.PIPE, stderr=subprocess.PIPE,
                               text=True, timeout=timeout, env=env, cwd=cwd)
            got = []
            for l in p.stdout.splitlines():
                if not l.startswith("{"):
                    continue
                try:
                    got.append(json.loads(l))
                except ValueError:
                    break           # the harness died while writing this line: it counts as not answered
            out.extend(got)
            if p.returncode == 0:
                break
            if p.returncode == 3:
                pending = pending[len(got):]
            elif p.returncode < 0 or "overflowed its stack" in p.stderr or p.returncode == 134:
                k = len(got)
                if k >= len(pending):
                    break
                out.append({"id": pending[k]["id"], "abort": (p.stderr.strip().splitlines() or ["signal %d" % p.returncode])[-1][:200]})
                pending = pending[k + 1:]
            else:
                raise ToolError(f"{os.path.basename(binary)} {sub} failed rc={p.returncode}: {p.stderr[-800:]}")
        return out

    jobs = max(1, min(jobs, len(recs)))
    n = (len(recs) + jobs - 1) // jobs
    parts = [recs[k:k + n] for k in range(0, len(recs), n)]
    with ThreadPoolExecutor(max_workers=jobs) as ex:
        outs = list(ex.map(one, parts))
    return [o for part in outs for o in part]


def compile_and_run(vh, programs, workdir, py=None, opt=1, jobs=12, run=True, render=False, dump=False):
    """programs: list of source strings.  Each is compiled in-process by the real compiler
    (vh check, mode compile) to its own .pyc; accepted ones are executed by `py` (one interpreter
    process per chunk, each module in a fresh namespace, py/verif/pyrun.py).
    Returns a list of dicts: {"compile": harness result, "run": runner result or None}."""
    env = erg_env(py)
    recs = [{"id": i, "src": src, "mode": "compile", "opt": opt, "render": render,
             "pyc": os.path.join(workdir, f"p{i}.pyc")} for i, src in enumerate(programs)]
    if py:
        for r_ in recs:
            r_["py"] = py
    res = vh_all(vh, "check", recs, jobs=jobs, env=env)
    byid = {o["id"]: o for o in res}
    if len(byid) != len(recs):
        raise ToolError(f"compile harness returned {len(byid)} of {len(recs)} results")
    # a watchdog timeout on a loaded machine is not a hang: confirm alone with a generous limit
    for i, o in list(byid.items()):
        if "hang" in o:
            again = vh_all(vh, "check", [recs[i]], args=["120000"], jobs=1, env=env)
            if again:
                byid[i] = again[0]
    out = [{"compile": byid[i], "run": None} for i in range(len(programs))]
    ok = [i for i in range(len(programs)) if byid[i].get("ok")]
    if run and ok:
        from concurrent.futures import ThreadPoolExecutor
        runner = os.path.join(VERIF, "py", "verif", "pyrun.py")
        parts = list(chunks(ok, max(1, (len(ok) + jobs - 1) // jobs)))

        def one(part):
            pending = list(part)
            got = {}
            while pending:
                inp = "\n".join(json.dumps({"id": i, "pyc": recs[i]["pyc"], "dump": dump}) for i in pending) + "\n"
                try:
                    p = subprocess.run([py or DEFAULT_PY, runner], input=inp, stdout=subprocess.PIPE, stderr=subprocess.PIPE,
                                       text=True, timeout=600, env=env, cwd=workdir)
                    lines, rc, err = p.stdout.splitlines(), p.returncode, p.stderr
                except subprocess.TimeoutExpired as e:
                    lines = (e.stdout or b"").decode("utf-8", "replace").splitlines() if isinstance(e.stdout, bytes) else (e.stdout or "").splitlines()
                    rc, err = -999, "timeout"
                n = 0
                for l in lines:
                    if l.startswith("{"):
                        try:
                            r = json.loads(l)
                        except ValueError:
                            continue
                        got[r["id"]] = r
                        n += 1
                if n >= len(pending):
                    break
                # the interpreter died (or hung) on the next program
                bad = pending[n]
                got[bad] = {"id": bad, "out": "", "exc": "InterpreterDied" if rc != -999 else "Timeout", "exc_msg": err[-300:], "exit": rc}
                pending = pending[n + 1:]
            return got

        with ThreadPoolExecutor(max_workers=len(parts)) as ex:
            for g in ex.map(one, parts):
                for i, r in g.items():
                    out[i]["run"] = r
    return out


def transpile_and_run(vh, programs, workdir, py=None, jobs=12, target=None):
    """Each source is transpiled in-process (`erg transpile`); produced scripts are executed by
    `py` (validity as Python first).  Returns [{"transpile": harness result, "run": ..., "path": ...}]"""
    env = erg_env(py)
    ext = ".json" if target == "json" else ".py"
    recs = [{"id": i, "src": src, "mode": "transpile", "out": os.path.join(workdir, f"t{i}{ext}")} for i, src in enumerate(programs)]
    if target:
        for r_ in recs:
            r_["target"] = target
    res = vh_all(vh, "check", recs, jobs=jobs, env=env)
    byid = {o["id"]: o for o in res}
    if len(byid) != len(recs):
        raise ToolError(f"transpile harness returned {len(byid)} of {len(recs)} results")
    out = [{"transpile": byid[i], "run": None, "path": recs[i]["out"]} for i in range(len(programs))]
    ok = [i for i in range(len(programs)) if byid[i].get("ok")]
    if ok and target != "json":
        from concurrent.futures import ThreadPoolExecutor
        runner = os.path.join(VERIF, "py", "verif", "pyrun.py")
        parts = list(chunks(ok, max(1, (len(ok) + jobs - 1) // jobs)))

        def one(part):
            inp = "\n".join(json.dumps({"id": i, "py_src": recs[i]["out"]}) for i in part) + "\n"
            p = subprocess.run([py or DEFAULT_PY, runner], input=inp, stdout=subprocess.PIPE, stderr=subprocess.PIPE, text=True,
                               timeout=900, env=env, cwd=workdir)
            got = {}
            for l in p.stdout.splitlines():
                if l.startswith("{"):
                    r = json.loads(l)
                    got[r["id"]] = r
            for i in part:
                got.setdefault(i, {"id": i, "out": "", "exc": "InterpreterDied", "exc_msg": p.stderr[-300:], "exit": p.returncode})
            return got

        with ThreadPoolExecutor(max_workers=len(parts)) as ex:
            for g in ex.map(one, parts):
                for i, r in g.items():
                    out[i]["run"] = r
    return out
